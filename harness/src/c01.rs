//! C01 — values and byte payloads arrive exactly as sent, at every size.
//!
//! Streams of messages whose lengths sit on and around every packet boundary the
//! transport derives from the (possibly interposer-reported) SO_SNDBUF, received
//! through every receive entry point, compared bit for bit with regenerated bodies.
//! Also reused under ASan / memcheck for C18.

use crate::gen::{gen_val_padded, same, shape_of, Blob, Val};
use crate::util::*;
use crate::Ctx;
use ipc_channel::ipc::{self, IpcReceiverSet, IpcSelectionResult, IpcSender, TryRecvError};
use serde_json::json;
use std::sync::atomic::{AtomicBool, Ordering};
use std::sync::Arc;
use std::time::Duration;

#[derive(Clone, Copy, Debug)]
pub struct Sizes {
    pub sndbuf: usize,
    pub f1: usize,
    pub f2: usize,
}

/// The sizes the library itself derives: SO_SNDBUF as reported to this process (through the
/// interposer, if it fakes one), first-fragment capacity and follow-up fragment capacity.
pub fn sizes() -> Sizes {
    if cfg!(miri) {
        // Miri cannot make sockets; the in-process transport it runs does not use these sizes
        return Sizes { sndbuf: 212992, f1: 212952, f2: 212960 };
    }
    let mut sv = [0i32; 2];
    let mut sndbuf: libc::c_int = 212992;
    unsafe {
        if libc::socketpair(libc::AF_UNIX, libc::SOCK_SEQPACKET | libc::SOCK_CLOEXEC, 0, sv.as_mut_ptr()) == 0 {
            let mut l = std::mem::size_of::<libc::c_int>() as libc::socklen_t;
            libc::getsockopt(sv[0], libc::SOL_SOCKET, libc::SO_SNDBUF, &mut sndbuf as *mut _ as *mut libc::c_void, &mut l);
            libc::close(sv[0]);
            libc::close(sv[1]);
        }
    }
    let sndbuf = sndbuf as usize;
    Sizes { sndbuf, f1: (sndbuf - 32 - 8) & !7usize, f2: sndbuf - 32 }
}

pub fn packets_for(sz: &Sizes, len: usize) -> usize {
    if !is_os() || len <= sz.f1 {
        1
    } else {
        1 + (len - sz.f1 + sz.f2 - 1) / sz.f2
    }
}

/// (boundary name, boundary value)
pub fn boundaries(sz: &Sizes) -> Vec<(String, usize)> {
    let mut v = Vec::new();
    for k in 1..=4usize {
        v.push((format!("{}xF1", k), k * sz.f1));
    }
    for j in 1..=3usize {
        v.push((format!("F1+{}xF2", j), sz.f1 + j * sz.f2));
    }
    v
}

pub fn length_class(sz: &Sizes, len: usize) -> String {
    for (name, b) in boundaries(sz) {
        let d = len as i64 - b as i64;
        if d.abs() <= 16 {
            return format!("{}{:+}", name, d);
        }
    }
    if len <= 64 {
        return format!("tiny{}", len);
    }
    format!("2^{}", 63 - (len as u64).leading_zeros())
}

#[derive(Clone, Copy, Debug, PartialEq)]
pub enum Mode {
    Recv,
    TryRecv,
    Timeout,
    Set,
}

impl Mode {
    pub fn name(self) -> &'static str {
        match self {
            Mode::Recv => "recv",
            Mode::TryRecv => "try_recv",
            Mode::Timeout => "try_recv_timeout",
            Mode::Set => "set",
        }
    }
}

#[derive(Clone, Debug)]
pub struct Stream {
    pub id: u64,
    pub typed: bool,
    pub lens: Vec<usize>,
    pub mode: Mode,
    pub process: bool,
}

pub fn typed_value(seed: u64, stream: u64, idx: usize, len: usize) -> (Val, Blob) {
    let mut r = Rng::derive(seed, stream, idx as u64);
    // encoded size == len when len >= 20; smaller requests give the smallest encodable value
    gen_val_padded(&mut r, 4, len.max(20))
}

fn msg_id(stream: u64, idx: usize) -> u64 {
    (stream << 24) ^ idx as u64 ^ 0x5100_0000_0000_0000
}

fn send_all_bytes(tx: &ipc::IpcBytesSender, st: &Stream) -> Result<(), String> {
    for (i, &len) in st.lens.iter().enumerate() {
        let b = body(msg_id(st.id, i), len);
        tx.send(&b).map_err(|e| format!("send #{} len {} failed: {}", i, len, e))?;
    }
    Ok(())
}

fn send_all_typed(tx: &IpcSender<(Val, Blob)>, seed: u64, st: &Stream) -> Result<(), String> {
    for (i, &len) in st.lens.iter().enumerate() {
        let v = typed_value(seed, st.id, i, len);
        tx.send(v).map_err(|e| format!("send #{} len {} failed: {}", i, len, e))?;
    }
    Ok(())
}

/// Child process: connect to the parent's one-shot server, hand over the receiving end, send.
pub fn role_sender(args: &[String]) -> i32 {
    let name = args[0].clone();
    let seed: u64 = args[1].parse().unwrap();
    let id: u64 = args[2].parse().unwrap();
    let typed = args[3] == "typed";
    let lens: Vec<usize> = args[4].split(',').filter(|s| !s.is_empty()).map(|s| s.parse().unwrap()).collect();
    let st = Stream { id, typed, lens, mode: Mode::Recv, process: true };
    let r = if typed {
        let (tx, rx) = ipc::channel::<(Val, Blob)>().unwrap();
        let boot: IpcSender<ipc::IpcReceiver<(Val, Blob)>> = IpcSender::connect(name).unwrap();
        boot.send(rx).unwrap();
        send_all_typed(&tx, seed, &st)
    } else {
        let (tx, rx) = ipc::bytes_channel().unwrap();
        let boot: IpcSender<ipc::IpcBytesReceiver> = IpcSender::connect(name).unwrap();
        boot.send(rx).unwrap();
        send_all_bytes(&tx, &st)
    };
    match r {
        Ok(()) => 0,
        Err(e) => {
            eprintln!("c01-sender: {}", e);
            7
        },
    }
}

enum Got {
    Bytes(Vec<u8>),
    Typed((Val, Blob)),
}

/// Polling receive with a logical bound: once the sender side reports completion, a message
/// that was sent must show up; 5 s of `Empty` after that is a lost message.
fn poll_until<T>(done: &AtomicBool, mut f: impl FnMut() -> Result<T, TryRecvError>) -> Result<T, String> {
    let mut done_at: Option<u64> = None;
    loop {
        match f() {
            Ok(v) => return Ok(v),
            Err(TryRecvError::Empty) => {
                if done.load(Ordering::SeqCst) {
                    let now = now_ns();
                    let t = *done_at.get_or_insert(now);
                    if now - t > 5_000_000_000 {
                        return Err("Empty for 5 s after every send had returned Ok".into());
                    }
                }
                std::thread::yield_now();
            },
            Err(TryRecvError::IpcError(e)) => return Err(format!("receive error: {:?}", e)),
        }
    }
}

pub fn run_stream(ctx: &Ctx, sz: &Sizes, st: &Stream, case: u64) {
    let rep = &ctx.rep;
    let sender_done = Arc::new(AtomicBool::new(false));
    let sender_err: Arc<std::sync::Mutex<Option<String>>> = Arc::new(std::sync::Mutex::new(None));
    let seed = ctx.seed;

    // set up the channel and the sending side
    enum Rx {
        Bytes(ipc::IpcBytesReceiver),
        Typed(ipc::IpcReceiver<(Val, Blob)>),
    }
    let mut child: Option<std::process::Child> = None;
    let mut sender_thread = None;
    let rx = if st.process && is_os() {
        let lens: Vec<String> = st.lens.iter().map(|l| l.to_string()).collect();
        let spawn = |name: String| {
            std::process::Command::new(self_exe())
                .args(["role", "c01-sender", &name, &seed.to_string(), &st.id.to_string(), if st.typed { "typed" } else { "bytes" }, &lens.join(",")])
                .spawn()
                .expect("spawn sender process")
        };
        if st.typed {
            let (server, name) = must("one-shot server", ipc::IpcOneShotServer::<ipc::IpcReceiver<(Val, Blob)>>::new());
            child = Some(spawn(name));
            let (_boot, rx) = server.accept().expect("accept");
            Rx::Typed(rx)
        } else {
            let (server, name) = must("one-shot server", ipc::IpcOneShotServer::<ipc::IpcBytesReceiver>::new());
            child = Some(spawn(name));
            let (_boot, rx) = server.accept().expect("accept");
            Rx::Bytes(rx)
        }
    } else if st.typed {
        let (tx, rx) = must("channel", ipc::channel::<(Val, Blob)>());
        let (st2, d, e) = (st.clone(), sender_done.clone(), sender_err.clone());
        sender_thread = Some(std::thread::spawn(move || {
            if let Err(x) = send_all_typed(&tx, seed, &st2) {
                *e.lock().unwrap() = Some(x);
            }
            d.store(true, Ordering::SeqCst);
        }));
        Rx::Typed(rx)
    } else {
        let (tx, rx) = must("bytes channel", ipc::bytes_channel());
        let (st2, d, e) = (st.clone(), sender_done.clone(), sender_err.clone());
        sender_thread = Some(std::thread::spawn(move || {
            if let Err(x) = send_all_bytes(&tx, &st2) {
                *e.lock().unwrap() = Some(x);
            }
            d.store(true, Ordering::SeqCst);
        }));
        Rx::Bytes(rx)
    };

    // receiving side, on a watched thread
    let n = st.lens.len();
    let mode = st.mode;
    let done2 = sender_done.clone();
    let settled_flag = sender_done.clone();
    let is_proc = child.is_some();
    let res = watch(
        "c01-receive",
        20_000,
        &move || settled_flag.load(Ordering::SeqCst),
        move || -> Result<Vec<Got>, (usize, String)> {
            let mut out = Vec::with_capacity(n);
            match rx {
                Rx::Bytes(rx) => {
                    for i in 0..n {
                        let r = match mode {
                            Mode::Recv => rx.recv().map_err(|e| format!("recv error: {:?}", e)),
                            _ => poll_until(&done2, || rx.try_recv()),
                        };
                        out.push(Got::Bytes(r.map_err(|e| (i, e))?));
                    }
                },
                Rx::Typed(rx) => match mode {
                    Mode::Set => {
                        let mut set = IpcReceiverSet::new().expect("set");
                        let id = set.add(rx).expect("add");
                        while out.len() < n {
                            let evs = set.select().map_err(|e| (out.len(), format!("select error: {}", e)))?;
                            for ev in evs {
                                match ev {
                                    IpcSelectionResult::MessageReceived(i, m) => {
                                        if i != id {
                                            return Err((out.len(), format!("event for unknown id {}", i)));
                                        }
                                        let v = m.to::<(Val, Blob)>().map_err(|e| (out.len(), format!("decode error: {}", e)))?;
                                        out.push(Got::Typed(v));
                                    },
                                    IpcSelectionResult::ChannelClosed(_) => {
                                        if out.len() < n {
                                            return Err((out.len(), "ChannelClosed before all messages".into()));
                                        }
                                    },
                                }
                            }
                        }
                    },
                    _ => {
                        for i in 0..n {
                            let r = match mode {
                                Mode::Recv => rx.recv().map_err(|e| format!("recv error: {:?}", e)),
                                Mode::TryRecv => poll_until(&done2, || rx.try_recv()),
                                _ => poll_until(&done2, || rx.try_recv_timeout(Duration::from_millis(20))),
                            };
                            out.push(Got::Typed(r.map_err(|e| (i, e))?));
                        }
                    },
                },
            }
            Ok(out)
        },
    );
    if let Some(mut c) = child.take() {
        // the child can only be reaped once its sends completed; the receive above drained them
        let status = c.wait().expect("wait child");
        if !status.success() {
            *sender_err.lock().unwrap() = Some(format!("sender process exited with {:?}", status));
        }
        sender_done.store(true, Ordering::SeqCst);
    }
    if let Some(t) = sender_thread {
        if matches!(res, Watch::Done(_)) {
            let _ = t.join();
        }
    }
    let base = json!({"stream": st.id, "typed": st.typed, "mode": st.mode.name(), "process": is_proc,
        "sndbuf": sz.sndbuf, "f1": sz.f1, "variant": variant()});
    let kind = if st.typed { "typed" } else { "bytes" };
    let got = match res {
        Watch::Done(Ok(v)) => v,
        Watch::Done(Err((i, e))) => {
            let len = st.lens[i];
            rep.violation(
                &format!("C01:{}:receive-failed:{}", kind, st.mode.name()),
                json!({"ctx": base, "index": i, "len": len, "class": length_class(sz, len), "error": e,
                    "sender_error": *sender_err.lock().unwrap()}),
                ctx.replay(case),
            );
            return;
        },
        Watch::Stuck(s) => {
            rep.violation(
                &format!("C01:{}:receive-stuck:{}", kind, st.mode.name()),
                json!({"ctx": base, "why": s, "lens": st.lens}),
                ctx.replay(case),
            );
            return;
        },
        Watch::Unknown(s) => {
            rep.inconclusive(&format!("c01 stream {}: {}", st.id, s));
            return;
        },
        Watch::Panicked(s) => {
            rep.violation(&format!("C01:{}:panic", kind), json!({"ctx": base, "panic": s}), ctx.replay(case));
            return;
        },
    };
    if let Some(e) = sender_err.lock().unwrap().clone() {
        rep.violation(&format!("C01:{}:send-failed", kind), json!({"ctx": base, "error": e}), ctx.replay(case));
        return;
    }
    for (i, g) in got.iter().enumerate() {
        let len = st.lens[i];
        let class = length_class(sz, len);
        let pk = packets_for(sz, if st.typed { len.max(20) } else { len });
        let diff = match g {
            Got::Bytes(d) => body_diff(msg_id(st.id, i), len, d),
            Got::Typed(v) => {
                let want = typed_value(seed, st.id, i, len);
                if same(&want, v) {
                    None
                } else {
                    Some(format!("value differs: sent shape {} blob {} / got shape {} blob {}", shape_of(&want.0), want.1 .0.len(), shape_of(&v.0), v.1 .0.len()))
                }
            },
        };
        let key = (kind, class.clone(), pk, sz.sndbuf, variant(), st.mode.name(), is_proc);
        rep.case(&key, true);
        rep.stat("messages", 1);
        rep.stat("bytes", len as i64);
        rep.stat_max("packets_per_message", pk as i64);
        if class.contains("F1") || class.contains("F2") {
            rep.stat("boundary_messages", 1);
        }
        if let Some(d) = diff {
            rep.violation(
                &format!("C01:{}:payload-differs", kind),
                json!({"ctx": base, "index": i, "len": len, "class": class, "packets": pk, "diff": d}),
                ctx.replay(case),
            );
        }
    }
    if case % 7 == 0 {
        let head: Vec<_> = st.lens.iter().take(6).map(|&l| json!({"len": l, "class": length_class(sz, l), "packets": packets_for(sz, l)})).collect();
        rep.sample(json!({"ctx": base, "messages": st.lens.len(), "first": head, "all_equal": true}));
    }
}

pub fn plan(ctx: &Ctx, sz: &Sizes) -> Vec<Stream> {
    let mut r = Rng::derive(ctx.seed, 0xc01, ctx.batch);
    let mut streams: Vec<Stream> = Vec::new();
    let real = sz.sndbuf > 100_000;
    let cap: usize = ctx.opt_u64("cap", if ctx.thorough { 16 << 20 } else { 4 << 20 }) as usize;
    let modes_typed = [Mode::Recv, Mode::TryRecv, Mode::Timeout, Mode::Set];
    let modes_bytes = [Mode::Recv, Mode::TryRecv];
    let mut next_id = ctx.batch * 1000;
    let mut push = |streams: &mut Vec<Stream>, typed: bool, lens: Vec<usize>, r: &mut Rng, process: bool| {
        if lens.is_empty() {
            return;
        }
        let mode = if typed { *r.pick(&modes_typed) } else { *r.pick(&modes_bytes) };
        streams.push(Stream { id: next_id, typed, lens, mode, process });
        next_id += 1;
    };

    // 1. every tiny length
    let tiny: Vec<usize> = (0..=64).collect();
    push(&mut streams, false, tiny.clone(), &mut r, false);
    push(&mut streams, true, tiny, &mut r, false);

    // 2. boundary lengths: every length within +-16 of every boundary, split over the batches when
    //    packets are large (real buffer size), all of them in each batch when they are small.
    let mut bl: Vec<usize> = Vec::new();
    for (_, b) in boundaries(sz) {
        for d in -16i64..=16 {
            bl.push((b as i64 + d) as usize);
        }
    }
    let mine: Vec<usize> = if real {
        bl.iter().enumerate().filter(|(i, _)| (*i as u64 + ctx.seed) % ctx.nbatch == ctx.batch).map(|(_, l)| *l).collect()
    } else {
        bl.clone()
    };
    for chunk in mine.chunks(12) {
        let typed = r.chance(400);
        let process = r.chance(80);
        let mut c = chunk.to_vec();
        r.shuffle(&mut c);
        push(&mut streams, typed, c, &mut r, process);
    }

    // 3. powers of two +-1
    let mut p2 = Vec::new();
    let mut p = 128usize;
    while p <= cap {
        for d in [-1i64, 0, 1] {
            p2.push((p as i64 + d) as usize);
        }
        p *= 2;
    }
    let p2m: Vec<usize> = p2.iter().enumerate().filter(|(i, _)| (*i as u64) % ctx.nbatch == ctx.batch || !real).map(|(_, l)| *l).collect();
    for chunk in p2m.chunks(9) {
        let typed = r.chance(400);
        push(&mut streams, typed, chunk.to_vec(), &mut r, false);
    }

    // 4. seeded random lengths, log-uniform
    let mult = ctx.opt_u64("mult", 1) as usize;
    let nrand = if ctx.thorough { 120 } else { 24 } * mult;
    let mut rl = Vec::new();
    for _ in 0..nrand {
        let bits = r.range(1, (63 - (cap as u64).leading_zeros()) as u64);
        rl.push((r.next() % (1u64 << bits)) as usize + 1);
    }
    for chunk in rl.chunks(8) {
        let typed = r.chance(500);
        let process = r.chance(100);
        push(&mut streams, typed, chunk.to_vec(), &mut r, process);
    }

    // 5. pure value trees (small), many
    let ntree = if ctx.thorough { 40 } else { 8 } * mult;
    for _ in 0..ntree {
        let lens: Vec<usize> = (0..25).map(|_| r.range(20, 600) as usize).collect();
        push(&mut streams, true, lens, &mut r, false);
    }

    // 6. one very large message (64 MiB) in batch 0 with the real buffer size
    if ctx.batch == 0 && real && ctx.opt_u64("huge", 1) == 1 {
        push(&mut streams, false, vec![64 << 20], &mut r, false);
        if ctx.thorough {
            push(&mut streams, true, vec![(64 << 20) - 8], &mut r, false);
        }
    }
    streams
}

pub fn run(ctx: &Ctx) {
    let sz = sizes();
    ctx.rep.stat("sndbuf_reported", sz.sndbuf as i64);
    let streams = plan(ctx, &sz);
    for (i, st) in streams.iter().enumerate() {
        if !ctx.want(i as u64) {
            continue;
        }
        run_stream(ctx, &sz, st, i as u64);
    }
}
