//! C09 — sending to a vanished receiver fails cleanly; one in transit still counts.

use crate::c01::{sizes, Sizes};
use crate::gen::Blob;
use crate::util::*;
use crate::Ctx;
use ipc_channel::ipc::{self, IpcError, IpcOneShotServer, IpcReceiver, IpcSender, TryRecvError};
use serde_json::{json, Value};
use std::io::Write;
use std::sync::atomic::{AtomicU64, Ordering};
use std::sync::{Arc, Mutex};
use std::time::Duration;

type M = (u32, Blob, Option<IpcSender<u64>>);

fn mid(case: u64, seq: u32) -> u64 {
    (case << 24) ^ seq as u64 ^ 0xc090_0000_0000_0000
}

#[derive(Clone, Debug)]
struct SendRec {
    seq: u32,
    len: usize,
    call: u64,
    ret: u64,
    ok: bool,
    err: String,
}

fn do_stream(tx: &IpcSender<M>, case: u64, start: usize, lens: &[usize], att: &[bool], pause_us: u64, log: &Mutex<Vec<SendRec>>) {
    for (k, &len) in lens.iter().enumerate() {
        let i = start + k;
        let a = if att[k] { ipc::channel::<u64>().ok().map(|(t, _r)| t) } else { None };
        let b = Blob(body(mid(case, i as u32), len));
        let call = now_ns();
        let r = tx.send((i as u32, b, a));
        let ret = now_ns();
        log.lock().unwrap().push(SendRec { seq: i as u32, len, call, ret, ok: r.is_ok(), err: r.err().map(|e| e.to_string()).unwrap_or_default() });
        if pause_us > 0 {
            std::thread::sleep(Duration::from_micros(pause_us));
        }
    }
}

/// Child sender with SIGPIPE at its default disposition.
pub fn role_sender(args: &[String]) -> i32 {
    let name = args[0].clone();
    let case: u64 = args[1].parse().unwrap();
    let lens: Vec<usize> = args[2].split(',').filter(|s| !s.is_empty()).map(|s| s.parse().unwrap()).collect();
    let att: Vec<bool> = args[3].chars().map(|c| c == '1').collect();
    let pause: u64 = args[4].parse().unwrap();
    let stamps = args[5].clone();
    unsafe { libc::signal(libc::SIGPIPE, libc::SIG_DFL) };
    let (btx, brx) = ipc::channel::<IpcSender<M>>().unwrap();
    let boot: IpcSender<IpcSender<IpcSender<M>>> = IpcSender::connect(name).unwrap();
    boot.send(btx).unwrap();
    drop(boot);
    let tx = brx.recv().unwrap();
    drop(brx);
    let log = Mutex::new(Vec::new());
    // write stamps incrementally: a signal death must not lose what happened before
    let mut f = std::fs::File::create(&stamps).unwrap();
    for (i, &len) in lens.iter().enumerate() {
        do_stream(&tx, case, i, &[len], &[att[i]], pause, &log);
        let mut l = log.lock().unwrap();
        let s = l.pop().unwrap();
        writeln!(f, "{} {} {} {} {} {}", i, s.len, s.call, s.ret, s.ok as u8, s.err.replace(' ', "_")).unwrap();
        let _ = f.flush();
    }
    0
}

/// Child receiver: takes over the receiving end and reads until it is killed.
pub fn role_reader(args: &[String]) -> i32 {
    let name = args[0].clone();
    let (btx, brx) = ipc::channel::<IpcReceiver<M>>().unwrap();
    let boot: IpcSender<IpcSender<IpcReceiver<M>>> = IpcSender::connect(name).unwrap();
    boot.send(btx).unwrap();
    drop(boot);
    let rx = brx.recv().unwrap();
    drop(brx);
    let slow: u64 = args[1].parse().unwrap_or(0);
    loop {
        match rx.recv() {
            Ok(_) => {
                if slow > 0 {
                    std::thread::sleep(Duration::from_micros(slow));
                }
            },
            Err(_) => return 0,
        }
    }
}

fn read_stamps(path: &str) -> Vec<SendRec> {
    let mut v = Vec::new();
    if let Ok(s) = std::fs::read_to_string(path) {
        for l in s.lines() {
            let f: Vec<&str> = l.split(' ').collect();
            if f.len() >= 5 {
                v.push(SendRec { seq: f[0].parse().unwrap(), len: f[1].parse().unwrap(), call: f[2].parse().unwrap(), ret: f[3].parse().unwrap(), ok: f[4] == "1", err: f.get(5).unwrap_or(&"").to_string() });
            }
        }
    }
    v
}

pub fn run_case(ctx: &Ctx, sz: &Sizes, case: u64) {
    let rep = &ctx.rep;
    let mut r = Rng::derive(ctx.seed, 0xc09, case);
    // 0 same thread, 1 other thread, 2 other process
    let actor = if is_os() { r.below(3) } else { r.below(2) } as u8;
    // 0 receiver held and reading, dropped after k messages; 1 in transit then unpacked; 2 in transit, carrier dropped; 3 nested transit, outer carrier dropped
    // 4 (process sender only): the receiving end lives in a third process that is SIGKILLed while it reads
    let rxmode = if actor == 2 && r.chance(300) { 4 } else { r.below(4) as u8 };
    let n = r.range(3, 40) as usize;
    let reading = (rxmode == 0 && actor != 0) || rxmode == 4;
    let big = reading && (rxmode == 4 || r.chance(400));
    let lens: Vec<usize> = (0..n)
        .map(|_| {
            if big && r.chance(if rxmode == 4 { 600 } else { 250 }) {
                // multi-packet, sometimes larger than what the kernel can buffer behind a dead reader
                let hi = if r.chance(300) { 1 << 20 } else { 3 * sz.f2 as u64 };
                sz.f1 + r.range(1, hi) as usize
            } else if reading {
                r.below(3000) as usize
            } else {
                r.below(600) as usize // nobody reads: stay far below the socket buffer
            }
        })
        .collect();
    let att: Vec<bool> = (0..n).map(|_| r.chance(250)).collect();
    let drop_after = r.below(n as u64 + 1) as usize;
    let pause_us = if r.chance(300) { r.below(300) } else { 0 };

    let (tx, rx) = must("channel", ipc::channel::<M>());
    let log: Arc<Mutex<Vec<SendRec>>> = Arc::new(Mutex::new(Vec::new()));
    let vanish_begin = Arc::new(AtomicU64::new(u64::MAX));
    let vanish_end = Arc::new(AtomicU64::new(u64::MAX));
    let actor_name = ["same-thread", "thread", "process"][actor as usize];
    let rx_name = ["held-reading", "in-transit-then-unpacked", "in-transit-carrier-dropped", "nested-transit-carrier-dropped", "reader-process-killed-mid-read"][rxmode as usize];
    let base = json!({"case": case, "variant": variant(), "actor": actor_name,
        "receiver": rx_name,
        "messages": n, "drop_after": drop_after, "max_len": lens.iter().max(), "sndbuf": sz.sndbuf});
    let mut problems: Vec<(String, Value)> = Vec::new();
    let mut delivered: Vec<u32> = Vec::new();
    let mut expect_all_delivered = false;

    // ---- receiver-side plan as a closure run on the main thread while the actor sends
    // place the receiver
    enum Place {
        Held(IpcReceiver<M>),
        Transit(IpcReceiver<IpcReceiver<M>>),
        Nested(IpcReceiver<IpcReceiver<IpcReceiver<M>>>),
        Reader(std::process::Child),
    }
    let place = match rxmode {
        4 => {
            let (server, name) = must("server", IpcOneShotServer::<IpcSender<IpcReceiver<M>>>::new());
            let slow = if r.chance(500) { r.below(400) } else { 0 };
            let rc = std::process::Command::new(self_exe()).args(["role", "c09-reader", &name, &slow.to_string()]).spawn().expect("spawn reader");
            let (_b, btx) = server.accept().expect("accept reader");
            btx.send(rx).expect("hand over receiver");
            Place::Reader(rc)
        },
        0 => Place::Held(rx),
        1 | 2 => {
            let (ctx_, crx) = must("carrier", ipc::channel::<IpcReceiver<M>>());
            ctx_.send(rx).expect("put receiver in transit");
            Place::Transit(crx)
        },
        _ => {
            let (c1, r1) = must("carrier", ipc::channel::<IpcReceiver<M>>());
            c1.send(rx).expect("put receiver in transit");
            let (c2, r2) = must("carrier", ipc::channel::<IpcReceiver<IpcReceiver<M>>>());
            c2.send(r1).expect("nest carrier");
            Place::Nested(r2)
        },
    };

    // ---- start the actor
    let mut child: Option<std::process::Child> = None;
    let mut thread: Option<std::thread::JoinHandle<()>> = None;
    let mut stamps_path = String::new();
    let mut same_thread_tx: Option<IpcSender<M>> = None;
    match actor {
        0 => same_thread_tx = Some(tx),
        1 => {
            let (l2, lens2, att2) = (log.clone(), lens.clone(), att.clone());
            thread = Some(std::thread::spawn(move || do_stream(&tx, case, 0, &lens2, &att2, pause_us, &l2)));
        },
        _ => {
            let (server, name) = must("server", IpcOneShotServer::<IpcSender<IpcSender<M>>>::new());
            stamps_path = std::env::temp_dir().join(format!("c09-{}.stamps", case)).to_string_lossy().into_owned();
            let ls: Vec<String> = lens.iter().map(|l| l.to_string()).collect();
            let as_: String = att.iter().map(|a| if *a { '1' } else { '0' }).collect();
            child = Some(
                std::process::Command::new(self_exe())
                    .args(["role", "c09-sender", &name, &case.to_string(), &ls.join(","), &as_, &pause_us.to_string(), &stamps_path])
                    .spawn()
                    .expect("spawn sender"),
            );
            let (_b, btx) = server.accept().expect("accept");
            btx.send(tx).expect("hand over sender");
        },
    }

    // ---- receiver side
    let vanish = |f: &mut dyn FnMut()| {
        vanish_begin.store(now_ns(), Ordering::SeqCst);
        f();
        vanish_end.store(now_ns(), Ordering::SeqCst);
    };
    match place {
        Place::Reader(mut rc) => {
            // let the stream run for a while, then kill the reading process wherever it is
            std::thread::sleep(Duration::from_micros(r.range(500, 40_000)));
            vanish(&mut || {
                let _ = rc.kill();
                let _ = rc.wait();
            });
        },
        Place::Held(rx) => {
            if actor == 0 {
                // same thread: send the first part, drop, send the rest
                let tx = same_thread_tx.take().unwrap();
                do_stream(&tx, case, 0, &lens[..drop_after], &att[..drop_after], 0, &log);
                let mut rx = Some(rx);
                vanish(&mut || drop(rx.take()));
                do_stream(&tx, case, drop_after, &lens[drop_after..], &att[drop_after..], 0, &log);
            } else {
                for _ in 0..drop_after {
                    match rx.recv() {
                        Ok((seq, blob, _a)) => {
                            if let Some(d) = body_diff(mid(case, seq), lens[seq as usize], &blob.0) {
                                problems.push(("payload-differs".into(), json!({"seq": seq, "diff": d})));
                            }
                            delivered.push(seq);
                        },
                        Err(e) => {
                            problems.push(("receive-error-before-drop".into(), json!({"error": format!("{:?}", e)})));
                            break;
                        },
                    }
                }
                if r.chance(500) {
                    std::thread::sleep(Duration::from_micros(r.below(4000)));
                }
                let mut rx = Some(rx);
                vanish(&mut || drop(rx.take()));
            }
        },
        Place::Transit(crx) => {
            if actor == 0 {
                let tx = same_thread_tx.take().unwrap();
                do_stream(&tx, case, 0, &lens[..drop_after], &att[..drop_after], 0, &log);
                if rxmode == 1 {
                    let rx = crx.recv().expect("unpack receiver");
                    do_stream(&tx, case, drop_after, &lens[drop_after..], &att[drop_after..], 0, &log);
                    drop(tx);
                    loop {
                        match rx.try_recv() {
                            Ok((_s, _b, _a)) => delivered.push(delivered.len() as u32),
                            Err(TryRecvError::Empty) | Err(TryRecvError::IpcError(IpcError::Disconnected)) => break,
                            Err(e) => {
                                problems.push(("receive-error".into(), json!({"error": format!("{:?}", e)})));
                                break;
                            },
                        }
                    }
                    expect_all_delivered = true;
                } else {
                    let mut c = Some(crx);
                    vanish(&mut || drop(c.take()));
                    do_stream(&tx, case, drop_after, &lens[drop_after..], &att[drop_after..], 0, &log);
                }
            } else {
                std::thread::sleep(Duration::from_micros(r.below(3000)));
                if rxmode == 1 {
                    let rx = crx.recv().expect("unpack receiver");
                    // everything the actor sends must arrive, in order
                    loop {
                        match rx.recv() {
                            Ok((seq, blob, _a)) => {
                                if let Some(d) = body_diff(mid(case, seq), lens[seq as usize], &blob.0) {
                                    problems.push(("payload-differs".into(), json!({"seq": seq, "diff": d})));
                                }
                                delivered.push(seq);
                            },
                            Err(IpcError::Disconnected) => break,
                            Err(e) => {
                                problems.push(("receive-error".into(), json!({"error": format!("{:?}", e)})));
                                break;
                            },
                        }
                    }
                    expect_all_delivered = true;
                } else {
                    let mut c = Some(crx);
                    vanish(&mut || drop(c.take()));
                }
            }
        },
        Place::Nested(r2) => {
            if actor == 0 {
                let tx = same_thread_tx.take().unwrap();
                do_stream(&tx, case, 0, &lens[..drop_after], &att[..drop_after], 0, &log);
                let mut c = Some(r2);
                vanish(&mut || drop(c.take()));
                do_stream(&tx, case, drop_after, &lens[drop_after..], &att[drop_after..], 0, &log);
            } else {
                std::thread::sleep(Duration::from_micros(r.below(3000)));
                let mut c = Some(r2);
                vanish(&mut || drop(c.take()));
            }
        },
    }

    // ---- the actor must come back
    let vend = vanish_end.load(Ordering::SeqCst);
    if let Some(t) = thread {
        let done = Arc::new(std::sync::atomic::AtomicBool::new(false));
        let d2 = done.clone();
        // join through the logical hang rule: after the receiver vanished nothing can unblock a send
        let h = std::thread::spawn(move || {
            let _ = t.join();
            d2.store(true, Ordering::SeqCst);
        });
        let d3 = done.clone();
        match await_cond(20_000, &move || d3.load(Ordering::SeqCst)) {
            Ok(true) => {
                let _ = h.join();
            },
            Ok(false) => {
                problems.push(("send-blocks-forever".into(), json!({"why": "sender thread asleep with the whole process idle, 20 s after the receiver vanished",
                    "sends_returned": log.lock().unwrap().len(), "next_len": lens.get(log.lock().unwrap().len())})));
            },
            Err(e) => {
                rep.inconclusive(&format!("c09 case {}: {}", case, e));
                return;
            },
        }
    }
    let mut sends: Vec<SendRec>;
    if let Some(mut c) = child {
        let t0 = now_ns();
        let status = loop {
            match c.try_wait() {
                Ok(Some(st)) => break Some(st),
                Ok(None) => {
                    if now_ns() - t0 > 20_000_000_000 {
                        break None;
                    }
                    std::thread::sleep(Duration::from_millis(1));
                },
                Err(_) => break None,
            }
        };
        match status {
            Some(st) => {
                use std::os::unix::process::ExitStatusExt;
                if let Some(sig) = st.signal() {
                    problems.push(("sender-killed-by-signal".into(), json!({"signal": sig})));
                } else if !st.success() {
                    problems.push(("sender-process-failed".into(), json!({"status": format!("{:?}", st)})));
                }
            },
            None => {
                let pid = c.id() as i32;
                let a = task_snap(pid, pid);
                std::thread::sleep(Duration::from_millis(1000));
                let b = task_snap(pid, pid);
                let stuck = matches!((&a, &b), (Some(a), Some(b)) if a.state == 'S' && b.state == 'S' && a.cpu == b.cpu && a.syscall == b.syscall);
                let _ = c.kill();
                let _ = c.wait();
                if stuck {
                    problems.push(("send-blocks-forever".into(), json!({"why": format!("sender process asleep in syscall {:?} 20 s after the receiver vanished", a.map(|s| syscall_name(s.syscall))),
                        "sends_returned": read_stamps(&stamps_path).len()})));
                } else {
                    rep.inconclusive(&format!("c09 case {}: sender process neither finished nor provably stuck", case));
                    return;
                }
            },
        }
        sends = read_stamps(&stamps_path);
        let _ = std::fs::remove_file(&stamps_path);
    } else {
        sends = log.lock().unwrap().clone();
    }
    sends.sort_by_key(|s| s.seq);

    // ---- verdicts on the send results
    let vbegin = vanish_begin.load(Ordering::SeqCst);
    let (mut after_err, mut before_ok, mut racing) = (0, 0, 0);
    for s in &sends {
        if vend != u64::MAX && s.call > vend {
            if s.ok {
                problems.push(("send-succeeded-after-receiver-vanished".into(), json!({"seq": s.seq, "len": s.len, "began_ns_after_vanish": s.call - vend})));
            } else {
                after_err += 1;
            }
        } else if s.ret < vbegin {
            if !s.ok {
                let k = if rxmode == 0 || rxmode == 4 { "send-failed-while-receiver-alive" } else { "send-failed-while-receiver-in-transit" };
                problems.push((k.into(), json!({"seq": s.seq, "len": s.len, "error": s.err})));
            } else {
                before_ok += 1;
            }
        } else {
            racing += 1;
        }
    }
    if expect_all_delivered {
        let want: Vec<u32> = (0..n as u32).collect();
        if actor != 0 && delivered != want {
            problems.push(("in-transit-delivery".into(), json!({"want": n, "got": delivered.iter().take(50).collect::<Vec<_>>()})));
        }
        if actor == 0 && delivered.len() != n {
            problems.push(("in-transit-delivery".into(), json!({"want": n, "got": delivered.len()})));
        }
    }
    rep.case(&(actor, rxmode, drop_after.min(5), big, sends.len().min(8)), true);
    rep.stat("sends", sends.len() as i64);
    rep.stat("sends_after_vanish_err", after_err);
    rep.stat("sends_before_vanish_ok", before_ok);
    rep.stat("sends_racing_the_drop", racing);
    rep.stat(&format!("actor_{}", actor), 1);
    rep.stat(&format!("rxmode_{}", rxmode), 1);
    if big {
        rep.stat("streams_with_multipacket", 1);
    }
    let mut seen = std::collections::BTreeSet::new();
    for (k, d) in problems {
        if seen.insert(k.clone()) {
            rep.violation(&format!("C09:{}", k), json!({"ctx": base, "problem": d}), ctx.replay(case));
        }
    }
    if case % 23 == 0 {
        rep.sample(json!({"ctx": base, "results": sends.iter().take(12).map(|s| json!({"seq": s.seq, "len": s.len, "ok": s.ok,
            "rel_to_vanish_ns": if vend == u64::MAX { json!(null) } else { json!(s.call as i64 - vend as i64) }})).collect::<Vec<_>>()}));
    }
}

pub fn run(ctx: &Ctx) {
    let sz = sizes();
    let n = ctx.opt_u64("cases", if ctx.thorough { 1500 } else { 60 });
    for i in 0..n {
        let case = ctx.batch * 1_000_000 + i;
        if !ctx.want(case) {
            continue;
        }
        run_case(ctx, &sz, case);
        if ctx.rep.nviol.load(Ordering::Relaxed) >= 4 {
            break;
        }
    }
}
