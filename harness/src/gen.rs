//! Value generators: plain serde data (`Val`) with floats compared by bit pattern.
#![allow(dead_code)]

use crate::util::Rng;
use serde::de::Visitor;
use serde::{Deserialize, Deserializer, Serialize, Serializer};
use std::collections::BTreeMap;
use std::fmt;

/// Byte string serialised through serialize_bytes (one memcpy instead of per-element calls).
#[derive(Clone, PartialEq, Eq, Hash)]
pub struct Blob(pub Vec<u8>);

impl fmt::Debug for Blob {
    fn fmt(&self, f: &mut fmt::Formatter) -> fmt::Result {
        write!(f, "Blob(len={})", self.0.len())
    }
}

impl Serialize for Blob {
    fn serialize<S: Serializer>(&self, s: S) -> Result<S::Ok, S::Error> {
        s.serialize_bytes(&self.0)
    }
}

struct BlobVisitor;
impl<'de> Visitor<'de> for BlobVisitor {
    type Value = Blob;
    fn expecting(&self, f: &mut fmt::Formatter) -> fmt::Result {
        f.write_str("bytes")
    }
    fn visit_bytes<E>(self, v: &[u8]) -> Result<Blob, E> {
        Ok(Blob(v.to_vec()))
    }
    fn visit_byte_buf<E>(self, v: Vec<u8>) -> Result<Blob, E> {
        Ok(Blob(v))
    }
}
impl<'de> Deserialize<'de> for Blob {
    fn deserialize<D: Deserializer<'de>>(d: D) -> Result<Blob, D::Error> {
        d.deserialize_byte_buf(BlobVisitor)
    }
}

#[derive(Serialize, Deserialize, Debug, Clone)]
pub struct Rec {
    pub a: u32,
    pub b: String,
    pub c: Val,
    pub d: (i16, f64),
    pub e: Option<u8>,
    pub f: Vec<u16>,
}

#[derive(Serialize, Deserialize, Debug, Clone)]
pub enum Shape {
    Unit,
    New(Val),
    Tuple(i64, Val),
    Struct { x: f32, y: Val },
}

#[derive(Serialize, Deserialize, Debug, Clone)]
pub enum Val {
    Unit,
    Bool(bool),
    U8(u8),
    I8(i8),
    U16(u16),
    I16(i16),
    U32(u32),
    I32(i32),
    U64(u64),
    I64(i64),
    U128(u128),
    F32(f32),
    F64(f64),
    Char(char),
    Str(String),
    Bytes(Blob),
    Opt(Option<Box<Val>>),
    Seq(Vec<Val>),
    Map(BTreeMap<String, Val>),
    Tup(Box<(Val, Val, Val)>),
    Struct(Box<Rec>),
    Enum(Box<Shape>),
}

fn gen_string(r: &mut Rng, max: usize) -> String {
    let n = r.below(max as u64 + 1) as usize;
    let mut s = String::new();
    for _ in 0..n {
        let c = match r.below(10) {
            0 => char::from_u32(r.range(0x80, 0x7ff) as u32).unwrap_or('x'),
            1 => char::from_u32(r.range(0x1f300, 0x1f5ff) as u32).unwrap_or('y'),
            2 => '\0',
            _ => (b' ' + r.below(95) as u8) as char,
        };
        s.push(c);
    }
    s
}

fn gen_f64(r: &mut Rng) -> f64 {
    match r.below(8) {
        0 => f64::NAN,
        1 => f64::from_bits(0x7ff8_0000_0000_0001 | (r.next() & 0xffff)), // NaN with payload
        2 => -0.0,
        3 => f64::INFINITY,
        4 => f64::MIN_POSITIVE / 2.0, // subnormal
        _ => f64::from_bits(r.next()),
    }
}

fn gen_f32(r: &mut Rng) -> f32 {
    match r.below(6) {
        0 => f32::NAN,
        1 => f32::from_bits(0x7fc0_0001 | (r.next() as u32 & 0xff)),
        2 => -0.0,
        3 => f32::NEG_INFINITY,
        _ => f32::from_bits(r.next() as u32),
    }
}

pub fn gen_val(r: &mut Rng, depth: u32) -> Val {
    let leaf_only = depth == 0;
    let k = if leaf_only { r.below(16) } else { r.below(22) };
    match k {
        0 => Val::Unit,
        1 => Val::Bool(r.chance(500)),
        2 => Val::U8(r.next() as u8),
        3 => Val::I8(r.next() as i8),
        4 => Val::U16(r.next() as u16),
        5 => Val::I16(r.next() as i16),
        6 => Val::U32(r.next() as u32),
        7 => Val::I32(r.next() as i32),
        8 => Val::U64(*r.pick(&[0, 1, u64::MAX, 1 << 63, r.clone().next()])),
        9 => Val::I64(*r.pick(&[0, -1, i64::MIN, i64::MAX, r.clone().next() as i64])),
        10 => Val::U128(((r.next() as u128) << 64) | r.next() as u128),
        11 => Val::F32(gen_f32(r)),
        12 => Val::F64(gen_f64(r)),
        13 => Val::Char(char::from_u32(r.below(0x11_0000) as u32).unwrap_or('\u{fffd}')),
        14 => Val::Str(gen_string(r, 40)),
        15 => {
            let n = *r.pick(&[0usize, 1, 7, 8, 9, 255, 256, 1000]);
            let id = r.next();
            Val::Bytes(Blob(crate::util::body(id, n)))
        },
        16 => Val::Opt(if r.chance(300) { None } else { Some(Box::new(gen_val(r, depth - 1))) }),
        17 => {
            let n = r.below(6);
            Val::Seq((0..n).map(|_| gen_val(r, depth - 1)).collect())
        },
        18 => {
            let n = r.below(5);
            let mut m = BTreeMap::new();
            for _ in 0..n {
                m.insert(gen_string(r, 8), gen_val(r, depth - 1));
            }
            Val::Map(m)
        },
        19 => Val::Tup(Box::new((gen_val(r, depth - 1), gen_val(r, depth - 1), gen_val(r, depth - 1)))),
        20 => Val::Struct(Box::new(Rec {
            a: r.next() as u32,
            b: gen_string(r, 12),
            c: gen_val(r, depth - 1),
            d: (r.next() as i16, gen_f64(r)),
            e: if r.chance(500) { Some(r.next() as u8) } else { None },
            f: (0..r.below(5)).map(|_| r.next() as u16).collect(),
        })),
        _ => Val::Enum(Box::new(match r.below(4) {
            0 => Shape::Unit,
            1 => Shape::New(gen_val(r, depth - 1)),
            2 => Shape::Tuple(r.next() as i64, gen_val(r, depth - 1)),
            _ => Shape::Struct { x: gen_f32(r), y: gen_val(r, depth - 1) },
        })),
    }
}

/// A value whose bincode encoding is exactly `total` bytes (total >= 20): a tuple of a random
/// tree and a padding blob. Returns None if the tree alone is already too large.
pub fn gen_val_padded(r: &mut Rng, depth: u32, total: usize) -> (Val, Blob) {
    // encoding of (Val, Blob) = enc(Val) + 8 + blob.len()
    for _ in 0..50 {
        let v = gen_val(r, depth);
        let n = bincode::serialized_size(&v).unwrap() as usize;
        if n + 8 <= total {
            let id = r.next();
            return (v, Blob(crate::util::body(id, total - n - 8)));
        }
    }
    let v = Val::Unit; // 4 bytes
    let id = r.next();
    (v, Blob(crate::util::body(id, total.saturating_sub(12))))
}

/// Bitwise equality through the wire encoding (NaN payloads, -0.0 and map order included).
pub fn same<T: Serialize>(a: &T, b: &T) -> bool {
    match (bincode::serialize(a), bincode::serialize(b)) {
        (Ok(x), Ok(y)) => x == y,
        _ => false,
    }
}

pub fn shape_of(v: &Val) -> String {
    fn go(v: &Val, out: &mut String, depth: usize) {
        if depth > 3 {
            out.push('~');
            return;
        }
        match v {
            Val::Unit => out.push('u'),
            Val::Bool(_) => out.push('b'),
            Val::U8(_) | Val::I8(_) | Val::U16(_) | Val::I16(_) | Val::U32(_) | Val::I32(_) | Val::U64(_)
            | Val::I64(_) | Val::U128(_) => out.push('i'),
            Val::F32(_) | Val::F64(_) => out.push('f'),
            Val::Char(_) => out.push('c'),
            Val::Str(_) => out.push('s'),
            Val::Bytes(b) => {
                out.push('B');
                out.push_str(&b.0.len().to_string());
            },
            Val::Opt(o) => {
                out.push('O');
                if let Some(x) = o {
                    go(x, out, depth + 1)
                }
            },
            Val::Seq(s) => {
                out.push('[');
                for x in s {
                    go(x, out, depth + 1)
                }
                out.push(']');
            },
            Val::Map(m) => {
                out.push('{');
                for x in m.values() {
                    go(x, out, depth + 1)
                }
                out.push('}');
            },
            Val::Tup(t) => {
                out.push('(');
                go(&t.0, out, depth + 1);
                go(&t.1, out, depth + 1);
                go(&t.2, out, depth + 1);
                out.push(')');
            },
            Val::Struct(r) => {
                out.push('S');
                go(&r.c, out, depth + 1);
            },
            Val::Enum(e) => {
                out.push('E');
                match &**e {
                    Shape::Unit => out.push('0'),
                    Shape::New(x) => {
                        out.push('1');
                        go(x, out, depth + 1)
                    },
                    Shape::Tuple(_, x) => {
                        out.push('2');
                        go(x, out, depth + 1)
                    },
                    Shape::Struct { y, .. } => {
                        out.push('3');
                        go(y, out, depth + 1)
                    },
                }
            },
        }
    }
    let mut s = String::new();
    go(v, &mut s, 0);
    s
}
