//! ipcdrv — workload drivers and client-boundary monitors for the ipc-channel
//! verification framework. One sub-command per scenario family; see DESIGN.md.

mod gen;
mod util;

mod c01;
mod c02;
mod c03;
mod c03r;
mod c04;
mod c05;
mod c06;
mod c07;
mod c08;
mod c09;
mod c10;
mod c11;
mod c12;
mod c13;
mod c14;
mod c15;
mod c16;
mod c17;
mod c18;
mod c20;
mod c19;
mod prog;

use serde_json::json;
use std::sync::Arc;
use util::Report;

pub struct Ctx {
    pub family: String,
    pub seed: u64,
    pub batch: u64,
    pub nbatch: u64,
    pub thorough: bool,
    pub only_case: Option<u64>,
    pub scale: u64,
    pub rep: Arc<Report>,
    pub opts: std::collections::BTreeMap<String, String>,
}

impl Ctx {
    pub fn opt(&self, k: &str) -> Option<&str> {
        self.opts.get(k).map(|s| s.as_str())
    }
    pub fn opt_u64(&self, k: &str, d: u64) -> u64 {
        self.opt(k).and_then(|s| s.parse().ok()).unwrap_or(d)
    }
    /// replay descriptor for one case of this batch
    pub fn replay(&self, case: u64) -> serde_json::Value {
        json!({
            "family": self.family, "seed": self.seed, "batch": self.batch, "nbatch": self.nbatch,
            "tier": if self.thorough {"thorough"} else {"quick"}, "case": case,
            "variant": util::variant(), "opts": self.opts,
            "env": {
                "IPCMON_SNDBUF": std::env::var("IPCMON_SNDBUF").ok(),
                "IPCMON_POISON": std::env::var("IPCMON_POISON").ok(),
                "IPCMON_DELAY": std::env::var("IPCMON_DELAY").ok(),
                "IPCMON_WIDEN": std::env::var("IPCMON_WIDEN").ok(),
            }
        })
    }
    pub fn want(&self, case: u64) -> bool {
        self.only_case.map(|c| c == case).unwrap_or(true)
    }
}

fn main() {
    util::install_panic_hook();
    let args: Vec<String> = std::env::args().collect();
    if args.len() < 2 {
        eprintln!("usage: ipcdrv <family|role> [--seed N] [--batch i] [--nbatch n] [--tier quick|thorough] [--out f] [--case N] [--opt k=v]");
        std::process::exit(2);
    }
    let family = args[1].clone();
    if family == "role" {
        std::process::exit(roles(&args[2..]));
    }
    let mut seed = 1u64;
    let mut batch = 0u64;
    let mut nbatch = 1u64;
    let mut thorough = false;
    let mut out: Option<String> = None;
    let mut only_case = None;
    let mut scale = 100u64;
    let mut opts = std::collections::BTreeMap::new();
    let mut i = 2;
    while i < args.len() {
        let a = &args[i];
        let v = args.get(i + 1).cloned().unwrap_or_default();
        match a.as_str() {
            "--seed" => seed = v.parse().unwrap(),
            "--batch" => batch = v.parse().unwrap(),
            "--nbatch" => nbatch = v.parse().unwrap(),
            "--tier" => thorough = v == "thorough",
            "--out" => out = Some(v.clone()),
            "--case" => only_case = Some(v.parse().unwrap()),
            "--scale" => scale = v.parse().unwrap(),
            "--opt" => {
                let (k, val) = v.split_once('=').unwrap_or((&v, ""));
                opts.insert(k.to_string(), val.to_string());
            },
            _ => {
                eprintln!("unknown argument {}", a);
                std::process::exit(2);
            },
        }
        i += 2;
    }
    let meta = json!({"family": family, "seed": seed, "batch": batch, "nbatch": nbatch, "variant": util::variant(),
        "tier": if thorough {"thorough"} else {"quick"}, "mon": util::mon().is_some(),
        "sndbuf_env": std::env::var("IPCMON_SNDBUF").ok()});
    let rep = Report::new(out.as_deref(), meta);
    let ctx = Ctx { family: family.clone(), seed, batch, nbatch, thorough, only_case, scale, rep: rep.clone(), opts };
    {
        let mut rb = ctx.replay(0);
        rb["case"] = serde_json::Value::Null;
        util::start_case_watchdog(rep.clone(), family.clone(), rb);
    }
    match family.as_str() {
        "c01" => c01::run(&ctx),
        "c02" => c02::run(&ctx),
        "c03" => c03::run(&ctx),
        "c03r" => c03r::run(&ctx),
        "c04" => c04::run(&ctx),
        "c05" => c05::run(&ctx),
        "c06" => c06::run(&ctx),
        "c07" => c07::run(&ctx),
        "c08" => c08::run(&ctx),
        "c09" => c09::run(&ctx),
        "c10" => c10::run(&ctx),
        "c11" => c11::run(&ctx),
        "c12" => c12::run(&ctx),
        "c13" => c13::run(&ctx),
        "c14" => c14::run(&ctx),
        "c15" => c15::run(&ctx),
        #[cfg(not(feature = "inproc"))]
        "c16" => c16::run(&ctx),
        "c17" => c17::run(&ctx),
        #[cfg(not(feature = "inproc"))]
        "c18" => c18::run(&ctx),
        #[cfg(feature = "async")]
        "c20" => c20::run(&ctx),
        "c19" => c19::run(&ctx),
        "c19dump" => c19::dump(&ctx),
        _ => {
            eprintln!("unknown family {}", family);
            std::process::exit(2);
        },
    }
    if family != "c11" {
        if let Some(m) = util::mon() {
            if m.alarm_count() > 0 {
                let text = m.alarm_text();
                let kind = text.split_whitespace().next().unwrap_or("alarm").to_string();
                rep.violation(&format!("{}:ledger:{}", family.to_uppercase(), kind), json!({"alarms": text.lines().take(8).collect::<Vec<_>>()}), ctx.replay(0));
            }
        }
    }
    rep.finish();
}

fn roles(args: &[String]) -> i32 {
    match args.first().map(|s| s.as_str()) {
        Some("c01-sender") => c01::role_sender(&args[1..]),
        Some("c02-sender") => c02::role_sender(&args[1..]),
        Some("c03-holder") => c03::role_holder(&args[1..]),
        Some("c04-relay") => c04::role_relay(&args[1..]),
        Some("c05-reader") => c05::role_reader(&args[1..]),
        Some("c08-client") => c08::role_client(&args[1..]),
        Some("c09-sender") => c09::role_sender(&args[1..]),
        Some("c09-reader") => c09::role_reader(&args[1..]),
        Some("c12-crasher") => c12::role_crasher(&args[1..]),
        Some("vgtest") => {
            // self-test of the definedness monitor: must be reported by memcheck
            let p = std::hint::black_box(unsafe { libc::malloc(4096) } as *const u8);
            let s = unsafe { std::slice::from_raw_parts(p, 4096) };
            util::touch_all(s);
            unsafe { libc::free(p as *mut libc::c_void) };
            0
        },
        Some("lsfd") => {
            // unrelated child: print inherited descriptors
            for (fd, t) in util::fd_table() {
                println!("{} {}", fd, t);
            }
            0
        },
        _ => {
            eprintln!("unknown role");
            2
        },
    }
}
