//! C03 (race family) — "disconnected only after every message sent before that has been delivered",
//! aimed at the narrowest window there is: a sender that sends its last message and drops its
//! handle at once, against a receiver that is polling at that very moment. Hundreds of thousands of
//! tiny channels per batch, through try_recv, try_recv_timeout, a blocking recv and a receiver set.

use crate::util::*;
use crate::Ctx;
use ipc_channel::ipc::{self, IpcError, IpcReceiver, IpcReceiverSet, IpcSelectionResult, IpcSender, TryRecvError};
use serde_json::json;
use std::sync::atomic::{AtomicU64, Ordering};
use std::sync::Arc;
use std::time::Duration;

/// value, and in a quarter of the rounds a sender whose receiving end the driver keeps
type RM = (u64, Option<IpcSender<u64>>);

pub fn run(ctx: &Ctx) {
    let rep = &ctx.rep;
    let rounds = ctx.opt_u64("rounds", if ctx.thorough { 400_000 } else { 60_000 });
    let mode = ctx.batch % 4; // 0 try_recv, 1 receiver set, 2 try_recv_timeout(0/1ms), 3 blocking recv
    let names = ["try_recv", "receiver-set", "try_recv_timeout", "recv"];
    // persistent sender worker: gets a sender and a value, spins a seeded moment, sends, drops
    let (wtx, wrx) = crossbeam_channel::unbounded::<(IpcSender<RM>, u64, u32, Option<IpcSender<u64>>)>();
    let sent = Arc::new(AtomicU64::new(0));
    let s2 = sent.clone();
    let nworkers = if mode == 1 { 3 } else { 1 };
    let mut workers = Vec::new();
    for _ in 0..nworkers {
    let wrx = wrx.clone();
    let s2 = s2.clone();
    workers.push(std::thread::spawn(move || {
        while let Ok((tx, v, spin, att)) = wrx.recv() {
            for _ in 0..spin {
                std::hint::spin_loop();
            }
            let mut ok = tx.send((v, att)).is_ok();
            if v & 1 == 1 {
                // a second message right behind the first: its arrival (and the drop) then race
                // with the drain loop that the first message started in the receiver
                for _ in 0..(spin % 97) * 8 {
                    std::hint::spin_loop();
                }
                ok = ok && tx.send((v + 2, None)).is_ok();
            }
            drop(tx);
            if ok {
                s2.fetch_add(1, Ordering::SeqCst);
            }
        }
    }));
    }
    let mut r = Rng::derive(ctx.seed, 0xc03f, ctx.batch);
    let mut set = IpcReceiverSet::new().expect("set");
    let mut lost = 0u64;
    let mut polls = 0u64;
    let mut first_loss: Option<serde_json::Value> = None;
    for i in 0..rounds {
        let case = ctx.batch * 10_000_000 + i;
        if !ctx.want(case) && ctx.only_case.is_some() {
            continue;
        }
        let (tx, rx): (IpcSender<RM>, IpcReceiver<RM>) = must("channel", ipc::channel());
        let v = case ^ 0x5eed;
        let spin = r.below(400) as u32;
        // the last message may carry a descriptor: it must arrive with it
        let att = if mode != 1 && r.chance(250) { Some(must("channel", ipc::channel::<u64>())) } else { None };
        let (att_tx, att_rx) = match att {
            Some((a, b)) => (Some(a), Some(b)),
            None => (None, None),
        };
        wtx.send((tx, v, spin, att_tx)).expect("worker");
        let mut got: Vec<u64> = Vec::new();
        let mut got_att: Vec<IpcSender<u64>> = Vec::new();
        let mut how_ended = "disconnected";
        match mode {
            1 => {
                // seven more channels in flight at the same time: the selector is busy draining
                // some members while others receive their last message and lose their sender
                let mut ids: std::collections::BTreeMap<u64, (u64, Vec<u64>, bool)> = std::collections::BTreeMap::new();
                ids.insert(set.add(rx).expect("add"), (v, Vec::new(), false));
                for k in 1..8u64 {
                    let (tx2, rx2): (IpcSender<RM>, IpcReceiver<RM>) = must("channel", ipc::channel());
                    let v2 = (case ^ 0x5eed).wrapping_add(k << 40) | (k & 1);
                    ids.insert(set.add(rx2).expect("add"), (v2, Vec::new(), false));
                    wtx.send((tx2, v2, r.below(400) as u32, None)).expect("worker");
                }
                let mut open = ids.len();
                while open > 0 {
                    match set.select() {
                        Ok(evs) => {
                            for ev in evs {
                                match ev {
                                    IpcSelectionResult::MessageReceived(i2, m) => {
                                        if let Some(e) = ids.get_mut(&i2) {
                                            e.1.push(m.to::<RM>().map(|x| x.0).unwrap_or(u64::MAX));
                                        }
                                    },
                                    IpcSelectionResult::ChannelClosed(i2) => {
                                        if let Some(e) = ids.get_mut(&i2) {
                                            if !e.2 {
                                                e.2 = true;
                                                open -= 1;
                                            }
                                        }
                                    },
                                }
                            }
                        },
                        Err(_) => {
                            how_ended = "select-error";
                            break;
                        },
                    }
                }
                // fold the group into one verdict: the first member that lost something is reported
                got = vec![v];
                if v & 1 == 1 {
                    got.push(v + 2);
                }
                for (_, (vv, g, _)) in ids {
                    let want = if vv & 1 == 1 { vec![vv, vv + 2] } else { vec![vv] };
                    if g != want {
                        got = g;
                        break;
                    }
                }
            },
            3 => loop {
                match rx.recv() {
                    Ok((m, a)) => {
                        got.push(m);
                        got_att.extend(a);
                    },
                    Err(IpcError::Disconnected) => break,
                    Err(_) => {
                        how_ended = "error";
                        break;
                    },
                }
            },
            _ => loop {
                polls += 1;
                let x = if mode == 0 { rx.try_recv() } else { rx.try_recv_timeout(Duration::from_millis(i % 2)) };
                match x {
                    Ok((m, a)) => {
                        got.push(m);
                        got_att.extend(a);
                    },
                    Err(TryRecvError::Empty) => continue,
                    Err(TryRecvError::IpcError(IpcError::Disconnected)) => break,
                    Err(_) => {
                        how_ended = "error";
                        break;
                    },
                }
            },
        }
        // the send had returned before the drop began, so the message must precede the disconnection
        let want = if v & 1 == 1 { vec![v, v + 2] } else { vec![v] };
        let mut att_ok = true;
        if let Some(arx) = &att_rx {
            rep.stat("race_rounds_with_attachment", 1);
            att_ok = got_att.len() == 1 && got_att[0].send(v).is_ok() && matches!(arx.try_recv(), Ok(x) if x == v);
            if got == want && !att_ok {
                how_ended = "attachment-missing-or-foreign";
            }
        }
        if got != want || !att_ok {
            lost += 1;
            if first_loss.is_none() {
                first_loss = Some(json!({"round": i, "observer": names[mode as usize], "got": got, "sent": v, "ended_by": how_ended, "spin": spin}));
            }
        }
    }
    drop(wtx);
    for w in workers {
        let _ = w.join();
    }
    rep.evals.fetch_add(rounds.saturating_sub(1), Ordering::Relaxed);
    rep.case(&(mode, "race"), true);
    rep.stat("race_rounds", rounds as i64);
    rep.stat(&format!("race_rounds_{}", names[mode as usize]), rounds as i64);
    rep.stat("race_polls", polls as i64);
    rep.stat("race_sends_ok", sent.load(Ordering::SeqCst) as i64);
    if lost > 0 {
        rep.violation(
            &format!("C03:race:disconnected-before-last-message:{}", names[mode as usize]),
            json!({"lost": lost, "rounds": rounds, "first": first_loss, "variant": variant()}),
            ctx.replay(0),
        );
    }
    rep.sample(json!({"observer": names[mode as usize], "rounds": rounds, "lost": lost, "variant": variant(),
        "what": "one message then immediate drop of the only sender, receiver polling concurrently"}));
}
