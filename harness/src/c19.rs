//! C19 — all transports give the same answers to the same single-process program, and that
//! answer is the ideal FIFO model's. Programs are generated from the model (prog.rs); every
//! step is compared with the model's prediction; the normalised trace hash of every program is
//! also exported so the runner can compare the three builds against each other.

use crate::prog::{Bias, Interp};
use crate::util::*;
use crate::Ctx;
use serde_json::json;

pub fn bias() -> Bias {
    Bias { sets: true, servers: true, regions: true, failing_ops: false, failing_serialize: true, max_chans: 6, ops: 60 }
}

pub fn run(ctx: &Ctx) {
    let n = ctx.opt_u64("programs", if ctx.thorough { 3000 } else { 150 });
    for i in 0..n {
        let prog = ctx.batch * 1_000_000 + i;
        if !ctx.want(prog) {
            continue;
        }
        let _g = op_begin("model-generated-program", prog);
        let it = Interp::new(ctx.seed, prog, bias());
        let (out, world, _model) = it.run();
        drop(world);
        let nontrivial = out.transfers + out.drops > 0;
        ctx.rep.case(&out.ops_hash, nontrivial);
        ctx.rep.stat("ops", out.trace.len() as i64);
        ctx.rep.stat("transfers", out.transfers as i64);
        ctx.rep.stat("set_member_bursts", out.bursts as i64);
        ctx.rep.stat("multi_packet_sends_to_dropped_receivers", out.big_dead_sends as i64);
        ctx.rep.stat("drops", out.drops as i64);
        ctx.rep.raw(json!({"t":"prog","prog":prog,"trace":format!("{:x}", hash_of(&out.trace)),"ops":format!("{:x}", out.ops_hash),"n":out.trace.len()}));
        if let Some(m) = out.mismatch {
            let kind = m.op.split(' ').next().unwrap_or("?").to_string();
            let tail: Vec<&String> = out.trace.iter().rev().take(12).collect::<Vec<_>>().into_iter().rev().collect();
            ctx.rep.violation(
                &format!("C19:model-mismatch:{}:{}", kind, variant()),
                json!({"program": prog, "step": m.step, "op": m.op, "model_expected": m.expected, "observed": m.got, "trace_tail": tail}),
                ctx.replay(prog),
            );
        }
        if ctx.rep.nviol.load(std::sync::atomic::Ordering::Relaxed) >= 5 {
            break;
        }
        if i % 50 == 0 {
            let head: Vec<&String> = out.trace.iter().take(25).collect();
            ctx.rep.sample(json!({"program": prog, "variant": variant(), "steps": out.trace.len(), "trace_head": head}));
        }
    }
}

pub fn dump(ctx: &Ctx) {
    let prog = ctx.only_case.unwrap_or(0);
    let it = Interp::new(ctx.seed, prog, bias());
    let (out, _w, _m) = it.run();
    for l in out.trace {
        println!("{}", l);
    }
}
