//! C08 — one-shot server bootstrap connects two processes and leaves nothing behind.

use crate::c01::{sizes, Sizes};
use crate::gen::Blob;
use crate::util::*;
use crate::Ctx;
use ipc_channel::ipc::{self, IpcError, IpcOneShotServer, IpcReceiver, IpcSender, TryRecvError};
use serde_json::{json, Value};
use std::collections::BTreeSet;
use std::sync::atomic::{AtomicI32, Ordering};
use std::sync::Arc;

type M = (u32, Blob, Option<IpcSender<u64>>);

fn mid(case: u64, srv: u32, seq: u32) -> u64 {
    (case << 36) ^ ((srv as u64) << 20) ^ seq as u64 ^ 0xc080_0000_0000_0000
}

fn tmp_entries() -> BTreeSet<String> {
    let mut s = BTreeSet::new();
    if let Ok(rd) = std::fs::read_dir(std::env::temp_dir()) {
        for e in rd.flatten() {
            s.insert(e.file_name().to_string_lossy().into_owned());
        }
    }
    s
}

fn listener_fds() -> usize {
    // sockets in LISTEN state cannot be told apart cheaply; count all socket fds instead
    fd_table().values().filter(|t| t.starts_with("socket:")).count()
}

pub fn role_client(args: &[String]) -> i32 {
    let name = args[0].clone();
    let case: u64 = args[1].parse().unwrap();
    let srv: u32 = args[2].parse().unwrap();
    let lens: Vec<usize> = args[3].split(',').filter(|s| !s.is_empty()).map(|s| s.parse().unwrap()).collect();
    let tx: IpcSender<M> = match IpcSender::connect(name) {
        Ok(t) => t,
        Err(_) => return 5,
    };
    for (i, len) in lens.iter().enumerate() {
        if tx.send((i as u32, Blob(body(mid(case, srv, i as u32), *len)), None)).is_err() {
            return 6;
        }
    }
    0
}

struct Plan {
    srv: u32,
    kind: u8, // 0 client finishes (and is gone) before accept, 1 accept first, 2 send some / accept / send rest, 3 drop unused, 4 drop with connected client
    process: bool,
    lens: Vec<usize>,
}

fn check_rest(case: u64, p: &Plan, first: M, rx: &IpcReceiver<M>, kept: &[Option<IpcReceiver<u64>>], problems: &mut Vec<(String, Value)>, client_gone: bool) {
    let mut got: Vec<M> = vec![first];
    loop {
        match rx.try_recv() {
            Ok(m) => got.push(m),
            Err(TryRecvError::Empty) => {
                if got.len() >= p.lens.len() {
                    break;
                }
                std::thread::yield_now();
                // all messages were sent before this function is called, so Empty with messages missing is a loss
                problems.push(("message-missing".into(), json!({"server": p.srv, "got": got.len(), "want": p.lens.len()})));
                break;
            },
            Err(TryRecvError::IpcError(IpcError::Disconnected)) => break,
            Err(e) => {
                problems.push(("receive-error".into(), json!({"server": p.srv, "error": format!("{:?}", e)})));
                break;
            },
        }
    }
    if got.len() != p.lens.len() {
        problems.push(("message-count".into(), json!({"server": p.srv, "got": got.len(), "want": p.lens.len(), "kind": p.kind, "process": p.process})));
    }
    let mut nonce = mid(case, p.srv, 0) ^ 0xffff;
    for (i, (seq, blob, att)) in got.iter().enumerate() {
        if *seq != i as u32 {
            problems.push(("order".into(), json!({"server": p.srv, "position": i, "seq": seq})));
            break;
        }
        if let Some(d) = body_diff(mid(case, p.srv, *seq), p.lens.get(i).cloned().unwrap_or(usize::MAX), &blob.0) {
            problems.push(("payload-differs".into(), json!({"server": p.srv, "seq": seq, "diff": d})));
        }
        if let (Some(tx), Some(Some(krx))) = (att, kept.get(i)) {
            nonce += 1;
            let _ = tx.send(nonce);
            match krx.try_recv() {
                Ok(v) if v == nonce => {},
                other => problems.push(("attachment-identity".into(), json!({"server": p.srv, "seq": seq, "got": format!("{:?}", other)}))),
            }
        } else if att.is_some() != kept.get(i).map(|k| k.is_some()).unwrap_or(false) && !p.process {
            problems.push(("attachment-presence".into(), json!({"server": p.srv, "seq": seq})));
        }
    }
    if client_gone {
        match rx.try_recv() {
            Err(TryRecvError::IpcError(IpcError::Disconnected)) => {},
            other => problems.push(("not-disconnected-after-client-gone".into(), json!({"server": p.srv, "got": format!("{:?}", other.map(|m| m.0))}))),
        }
    }
}

/// every name any one-shot server of this process ever returned
static ALL_NAMES: std::sync::Mutex<BTreeSet<String>> = std::sync::Mutex::new(BTreeSet::new());

pub fn run_case(ctx: &Ctx, sz: &Sizes, case: u64) {
    let rep = &ctx.rep;
    let mut r = Rng::derive(ctx.seed, 0xc08, case);
    let max_alive = ctx.opt_u64("max_alive", if ctx.thorough { 200 } else { 40 });
    let nsrv = match r.below(4) {
        0 => 1,
        1 => r.range(max_alive / 2, max_alive),
        _ => r.range(2, 12),
    } as usize;
    let base_fds = fd_table();
    let base_tmp = tmp_entries();
    let mut problems: Vec<(String, Value)> = Vec::new();
    // create all servers first: they are alive at the same time
    let mut servers: Vec<Option<IpcOneShotServer<M>>> = Vec::new();
    let mut names: Vec<String> = Vec::new();
    for _ in 0..nsrv {
        let (s, n) = must("one-shot server", IpcOneShotServer::<M>::new());
        servers.push(Some(s));
        names.push(n);
    }
    let distinct: BTreeSet<&String> = names.iter().collect();
    if distinct.len() != names.len() {
        problems.push(("names-collide".into(), json!({"servers": nsrv, "distinct": distinct.len()})));
    }
    // "every server gets a distinct name" also holds over time: a name handed out again after its first
    // server finished lets a late client of the old server reach the new one
    {
        let mut all = ALL_NAMES.lock().unwrap();
        let reused: Vec<&String> = distinct.iter().filter(|n| all.contains(n.as_str())).cloned().collect();
        if !reused.is_empty() {
            problems.push(("name-of-finished-server-handed-out-again".into(), json!({"reused": reused.len(), "example": reused[0], "names_seen_in_this_process": all.len()})));
        }
        for n in &names {
            all.insert(n.clone());
        }
        rep.stat_max("names_compared_over_time", all.len() as i64);
    }
    if is_os() {
        let now = tmp_entries();
        let added = now.difference(&base_tmp).count();
        if added != nsrv {
            // informational: the rendezvous need not use the filesystem at all
            rep.stat("tmp_entries_not_one_per_server", 1);
        }
    }
    let mut kinds_seen = Vec::new();
    let mut order: Vec<usize> = (0..nsrv).collect();
    r.shuffle(&mut order);
    for &si in &order {
        let kind = match r.below(11) {
            0..=2 => 0,
            3..=5 => 1,
            6..=7 => 2,
            8 => 3,
            9 => 4,
            _ => 5,
        } as u8;
        let process = is_os() && (kind == 0 || kind == 1) && r.chance(if nsrv > 20 { 100 } else { 400 });
        let kind = if kind == 5 && !is_os() { 2 } else { kind };
        let nmsg = r.range(1, 20) as usize;
        let allow_multi = is_os() && sz.sndbuf < 100_000 && kind == 1;
        let lens: Vec<usize> = if kind == 5 {
            // bulk: the client queues far more than one socket buffer before accept is called
            (0..r.range(6, 12)).map(|_| if r.chance(600) { r.range(60_000, 300_000) as usize } else { r.below(2000) as usize }).collect()
        } else {
            (0..nmsg).map(|_| if allow_multi && r.chance(100) { sz.f1 + r.range(1, 2 * sz.f2 as u64) as usize } else { r.below(1500) as usize }).collect()
        };
        let p = Plan { srv: si as u32, kind, process, lens };
        kinds_seen.push((kind, process));
        let server = servers[si].take().unwrap();
        let name = names[si].clone();
        let tmp_before = tmp_entries().len();
        let sock_before = listener_fds();
        match kind {
            3 => {
                drop(server);
            },
            4 => {
                let tx: Result<IpcSender<M>, _> = IpcSender::connect(name);
                if let Ok(tx) = &tx {
                    let _ = tx.send((0, Blob(vec![1, 2, 3]), None));
                }
                drop(server);
                drop(tx);
            },
            _ => {
                // thread-client attachments are kept here for identity probes
                let mut kept: Vec<Option<IpcReceiver<u64>>> = Vec::new();
                let mut atts: Vec<Option<IpcSender<u64>>> = Vec::new();
                for _ in 0..p.lens.len() {
                    if !p.process && r.chance(300) {
                        let (t, k) = must("channel", ipc::channel::<u64>());
                        atts.push(Some(t));
                        kept.push(Some(k));
                    } else {
                        atts.push(None);
                        kept.push(None);
                    }
                }
                let send_range = |tx: &IpcSender<M>, atts: &mut Vec<Option<IpcSender<u64>>>, from: usize, to: usize, problems: &mut Vec<(String, Value)>| {
                    for i in from..to {
                        if let Err(e) = tx.send((i as u32, Blob(body(mid(case, p.srv, i as u32), p.lens[i])), atts[i].take())) {
                            problems.push(("client-send-failed".into(), json!({"server": p.srv, "seq": i, "error": e.to_string()})));
                        }
                    }
                };
                let spawn_client = |name: &str| {
                    let lens: Vec<String> = p.lens.iter().map(|l| l.to_string()).collect();
                    std::process::Command::new(self_exe())
                        .args(["role", "c08-client", name, &case.to_string(), &p.srv.to_string(), &lens.join(",")])
                        .spawn()
                        .expect("spawn client")
                };
                let accepted: Option<(IpcReceiver<M>, M)>;
                match kind {
                    0 => {
                        // client connects, sends everything and is gone before accept
                        if p.process {
                            let mut c = spawn_client(&name);
                            let st = c.wait().expect("wait client");
                            if !st.success() {
                                problems.push(("client-process-failed".into(), json!({"server": p.srv, "status": format!("{:?}", st)})));
                            }
                        } else {
                            match IpcSender::<M>::connect(name.clone()) {
                                Ok(tx) => {
                                    let n = p.lens.len();
                                    send_range(&tx, &mut atts, 0, n, &mut problems);
                                    drop(tx);
                                },
                                Err(e) => problems.push(("connect-failed".into(), json!({"server": p.srv, "error": e.to_string()}))),
                            }
                        }
                        accepted = match server.accept() {
                            Ok(x) => Some(x),
                            Err(e) => {
                                problems.push(("accept-failed".into(), json!({"server": p.srv, "kind": kind, "error": e.to_string()})));
                                None
                            },
                        };
                        if let Some((rx, first)) = accepted {
                            check_rest(case, &p, first, &rx, &kept, &mut problems, true);
                        }
                    },
                    1 => {
                        // accept first: wait until the accepting thread sleeps in accept(2)
                        let tid = Arc::new(AtomicI32::new(0));
                        let tid2 = tid.clone();
                        let h = std::thread::spawn(move || {
                            tid2.store(gettid(), Ordering::SeqCst);
                            server.accept()
                        });
                        if is_os() {
                            while tid.load(Ordering::SeqCst) == 0 {
                                std::thread::yield_now();
                            }
                            if !wait_in_syscall(tid.load(Ordering::SeqCst), &[43, 288], 10_000) {
                                rep.stat("accept_first_not_confirmed", 1);
                            } else {
                                rep.stat("accept_first_confirmed", 1);
                            }
                        } else {
                            std::thread::sleep(std::time::Duration::from_millis(2));
                        }
                        let mut child = None;
                        let mut txk = None;
                        if p.process {
                            child = Some(spawn_client(&name));
                        } else {
                            match IpcSender::<M>::connect(name.clone()) {
                                Ok(tx) => {
                                    // multi-packet messages need the reader: only the first message is sent before accept returns
                                    send_range(&tx, &mut atts, 0, 1, &mut problems);
                                    txk = Some(tx);
                                },
                                Err(e) => problems.push(("connect-failed".into(), json!({"server": p.srv, "error": e.to_string()}))),
                            }
                        }
                        match h.join() {
                            Ok(Ok((rx, first))) => {
                                if let Some(tx) = txk.take() {
                                    // remaining messages: sent from a helper thread while we read (multi-packet safe)
                                    let n = p.lens.len();
                                    let lens = p.lens.clone();
                                    let mut rest: Vec<Option<IpcSender<u64>>> = atts.drain(..).collect();
                                    let srv = p.srv;
                                    let sender = std::thread::spawn(move || {
                                        let mut errs = Vec::new();
                                        for i in 1..n {
                                            if let Err(e) = tx.send((i as u32, Blob(body(mid(case, srv, i as u32), lens[i])), rest[i].take())) {
                                                errs.push(format!("seq {}: {}", i, e));
                                            }
                                        }
                                        errs
                                    });
                                    // read concurrently
                                    let mut got = vec![first];
                                    while got.len() < n {
                                        match rx.recv() {
                                            Ok(m) => got.push(m),
                                            Err(e) => {
                                                problems.push(("receive-error".into(), json!({"server": p.srv, "error": format!("{:?}", e), "got": got.len(), "want": n})));
                                                break;
                                            },
                                        }
                                    }
                                    for e in sender.join().unwrap_or_default() {
                                        problems.push(("client-send-failed".into(), json!({"server": p.srv, "error": e})));
                                    }
                                    let mut it = got.into_iter();
                                    let f = it.next().unwrap();
                                    // re-queue the rest through a local channel so that check_rest sees the same interface
                                    let (ltx, lrx) = must("channel", ipc::channel::<M>());
                                    for m in it {
                                        let _ = ltx.send(m);
                                    }
                                    drop(ltx);
                                    check_rest(case, &p, f, &lrx, &kept, &mut problems, false);
                                    match rx.try_recv() {
                                        Err(TryRecvError::IpcError(IpcError::Disconnected)) => {},
                                        other => problems.push(("not-disconnected-after-client-gone".into(), json!({"server": p.srv, "got": format!("{:?}", other.map(|m| m.0))}))),
                                    }
                                } else if let Some(mut c) = child.take() {
                                    // process client: read everything while it sends
                                    let n = p.lens.len();
                                    let mut got = vec![first];
                                    while got.len() < n {
                                        match rx.recv() {
                                            Ok(m) => got.push(m),
                                            Err(e) => {
                                                problems.push(("receive-error".into(), json!({"server": p.srv, "error": format!("{:?}", e), "got": got.len(), "want": n})));
                                                break;
                                            },
                                        }
                                    }
                                    let _ = c.wait();
                                    let mut it = got.into_iter();
                                    let f = it.next().unwrap();
                                    let (ltx, lrx) = must("channel", ipc::channel::<M>());
                                    for m in it {
                                        let _ = ltx.send(m);
                                    }
                                    drop(ltx);
                                    check_rest(case, &p, f, &lrx, &kept, &mut problems, false);
                                    match rx.try_recv() {
                                        Err(TryRecvError::IpcError(IpcError::Disconnected)) => {},
                                        other => problems.push(("not-disconnected-after-client-gone".into(), json!({"server": p.srv, "got": format!("{:?}", other.map(|m| m.0))}))),
                                    }
                                }
                            },
                            Ok(Err(e)) => problems.push(("accept-failed".into(), json!({"server": p.srv, "kind": kind, "error": e.to_string()}))),
                            Err(_) => problems.push(("accept-panicked".into(), json!({"server": p.srv}))),
                        }
                        if let Some(mut c) = child {
                            let _ = c.wait();
                        }
                    },
                    5 => {
                        // bulk before accept: the client thread connects and streams; it blocks on the full
                        // socket until accept is called and the receiver drains it, then exits
                        let lens2 = p.lens.clone();
                        let srv = p.srv;
                        let name2 = name.clone();
                        let client = std::thread::spawn(move || -> Vec<String> {
                            let mut errs = Vec::new();
                            match IpcSender::<M>::connect(name2) {
                                Ok(tx) => {
                                    for (i, len) in lens2.iter().enumerate() {
                                        if let Err(e) = tx.send((i as u32, Blob(body(mid(case, srv, i as u32), *len)), None)) {
                                            errs.push(format!("seq {} len {}: {}", i, len, e));
                                        }
                                    }
                                },
                                Err(e) => errs.push(format!("connect: {}", e)),
                            }
                            errs
                        });
                        std::thread::sleep(std::time::Duration::from_millis(r.range(1, 15)));
                        match server.accept() {
                            Ok((rx, first)) => {
                                let n = p.lens.len();
                                let mut got = vec![first];
                                while got.len() < n {
                                    match rx.recv() {
                                        Ok(m) => got.push(m),
                                        Err(e) => {
                                            problems.push(("bulk-message-missing".into(), json!({"server": p.srv, "got": got.len(), "want": n, "error": format!("{:?}", e)})));
                                            break;
                                        },
                                    }
                                }
                                for e in client.join().unwrap_or_default() {
                                    problems.push(("client-send-failed".into(), json!({"server": p.srv, "error": e, "kind": "bulk"})));
                                }
                                for (i, (seq, blob, _)) in got.iter().enumerate() {
                                    if *seq != i as u32 || body_diff(mid(case, p.srv, *seq), p.lens[i], &blob.0).is_some() {
                                        problems.push(("bulk-order-or-payload".into(), json!({"server": p.srv, "position": i, "seq": seq})));
                                        break;
                                    }
                                }
                                match rx.try_recv() {
                                    Err(TryRecvError::IpcError(IpcError::Disconnected)) => {},
                                    other => problems.push(("not-disconnected-after-client-gone".into(), json!({"server": p.srv, "got": format!("{:?}", other.map(|m| m.0))}))),
                                }
                            },
                            Err(e) => problems.push(("accept-failed".into(), json!({"server": p.srv, "kind": kind, "error": e.to_string()}))),
                        }
                    },
                    _ => {
                        // send some, accept, send the rest
                        match IpcSender::<M>::connect(name.clone()) {
                            Ok(tx) => {
                                let n = p.lens.len();
                                let cut = r.range(1, n as u64) as usize;
                                send_range(&tx, &mut atts, 0, cut, &mut problems);
                                match server.accept() {
                                    Ok((rx, first)) => {
                                        send_range(&tx, &mut atts, cut, n, &mut problems);
                                        drop(tx);
                                        check_rest(case, &p, first, &rx, &kept, &mut problems, true);
                                    },
                                    Err(e) => problems.push(("accept-failed".into(), json!({"server": p.srv, "kind": kind, "error": e.to_string()}))),
                                }
                            },
                            Err(e) => problems.push(("connect-failed".into(), json!({"server": p.srv, "error": e.to_string()}))),
                        }
                    },
                }
            },
        }
        // this server is finished (accepted and its receiver dropped, or dropped unused):
        // its rendezvous artefacts must be gone while the others are still alive
        if is_os() {
            let tmp_after = tmp_entries().len();
            let sock_after = listener_fds();
            if tmp_after + 1 != tmp_before && tmp_before > base_tmp.len() {
                problems.push(("tmp-entry-left-behind".into(), json!({"server": si, "kind": kind, "tmp_before": tmp_before, "tmp_after": tmp_after})));
            }
            if sock_after + 1 != sock_before {
                problems.push(("socket-count-after-finish".into(), json!({"server": si, "kind": kind, "before": sock_before, "after": sock_after})));
            }
        }
        rep.stat(&format!("kind_{}", kind), 1);
        if process {
            rep.stat("process_clients", 1);
        }
    }
    // everything finished: nothing may remain
    if is_os() {
        let fds = fd_table();
        let extra: Vec<(i32, String)> = fds.iter().filter(|(k, _)| !base_fds.contains_key(k)).map(|(k, v)| (*k, v.clone())).collect();
        if !extra.is_empty() {
            problems.push(("descriptor-left-behind".into(), json!({"extra": extra.iter().take(8).collect::<Vec<_>>()})));
        }
        let tmp = tmp_entries();
        let left: Vec<&String> = tmp.difference(&base_tmp).collect();
        if !left.is_empty() {
            problems.push(("tmp-entry-left-behind-at-end".into(), json!({"left": left.iter().take(8).collect::<Vec<_>>()})));
        }
    }
    rep.case(&(nsrv, kinds_seen.clone()), true);
    rep.stat("servers", nsrv as i64);
    rep.stat_max("servers_alive_at_once", nsrv as i64);
    let base = json!({"case": case, "variant": variant(), "servers": nsrv});
    let mut seen = BTreeSet::new();
    for (k, d) in problems {
        if seen.insert(k.clone()) {
            rep.violation(&format!("C08:{}", k), json!({"ctx": base, "problem": d}), ctx.replay(case));
        }
    }
    if case % 5 == 0 {
        rep.sample(json!({"ctx": base, "kinds [kind,process]": kinds_seen.iter().take(20).collect::<Vec<_>>(), "clean": seen.is_empty(),
            "kind_legend": "0 client done and gone before accept, 1 accept first, 2 send/accept/send, 3 dropped unused, 4 dropped with connected client, 5 bulk (>1 socket buffer) queued before accept"}));
    }
}

pub fn run(ctx: &Ctx) {
    let sz = sizes();
    let n = ctx.opt_u64("cases", if ctx.thorough { 200 } else { 12 });
    // warm-up: lazily created library state (send-buffer probe) must not count as a leak
    {
        let (s, name) = must("server", IpcOneShotServer::<M>::new());
        ALL_NAMES.lock().unwrap().insert(name.clone());
        let tx: IpcSender<M> = IpcSender::connect(name).unwrap();
        tx.send((0, Blob(vec![]), None)).unwrap();
        let _ = s.accept().unwrap();
    }
    for i in 0..n {
        let case = ctx.batch * 1_000_000 + i;
        if !ctx.want(case) {
            continue;
        }
        let _g = op_begin("one-shot-servers", case);
        run_case(ctx, &sz, case);
    }
}
