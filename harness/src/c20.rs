//! C20 — a receiver turned into an async stream yields the same messages, then ends.
#![cfg(feature = "async")]

use crate::gen::Blob;
use crate::util::*;
use crate::Ctx;
use futures::executor::{block_on, LocalPool};
use futures::task::{waker, ArcWake, LocalSpawnExt};
use futures::{Stream, StreamExt};
use ipc_channel::ipc::{self, IpcReceiver, IpcSender};
use serde_json::{json, Value};
use std::pin::Pin;
use std::sync::atomic::{AtomicU64, Ordering};
use std::sync::{Arc, Mutex};
use std::task::{Context, Poll};
use std::time::Duration;

type M = (u32, u32, Blob);

fn mid(case: u64, tag: u32, seq: u32) -> u64 {
    (case << 36) ^ ((tag as u64) << 20) ^ seq as u64 ^ 0xc200_0000_0000_0000
}

struct CountWaker(AtomicU64);
impl ArcWake for CountWaker {
    fn wake_by_ref(a: &Arc<Self>) {
        a.0.fetch_add(1, Ordering::SeqCst);
    }
}

#[derive(Debug, Clone)]
enum Item {
    Msg { tag: u32, seq: u32, ok: bool, at: u64 },
    DecodeErr(String),
    End { at: u64 },
}

struct StreamPlan {
    tag: u32,
    total: u32,
    pre: u32,
    consumer: u8, // 0 block_on, 1 LocalPool, 2 manual polling with a counting waker
    lens: Vec<usize>,
}

fn record(case: u64, it: Option<Result<M, String>>) -> Item {
    match it {
        Some(Ok((tag, seq, blob))) => Item::Msg { tag, seq, ok: body_diff(mid(case, tag, seq), blob.0.len(), &blob.0).is_none(), at: now_ns() },
        Some(Err(e)) => Item::DecodeErr(e),
        None => Item::End { at: now_ns() },
    }
}

pub fn run_case(ctx: &Ctx, case: u64) {
    let rep = &ctx.rep;
    let mut r = Rng::derive(ctx.seed, 0xc20, case);
    let nstreams = match r.below(3) {
        0 => r.range(1, 3),
        _ => r.range(2, 32),
    } as usize;
    let nconv_threads = r.range(1, 8) as usize;
    let mut plans: Vec<StreamPlan> = Vec::new();
    let mut txs: Vec<Option<IpcSender<M>>> = Vec::new();
    let mut rxs: Vec<Option<IpcReceiver<M>>> = Vec::new();
    for i in 0..nstreams {
        let total = r.below(51) as u32;
        let pre = if r.chance(500) { r.below(total as u64 + 1).min(25) as u32 } else { 0 };
        let lens: Vec<usize> = (0..total).map(|_| r.below(500) as usize).collect();
        let (tx, rx) = must("channel", ipc::channel::<M>());
        for s in 0..pre {
            tx.send((i as u32, s, Blob(body(mid(case, i as u32, s), lens[s as usize])))).expect("pre-queue");
        }
        plans.push(StreamPlan { tag: i as u32, total, pre, consumer: r.below(3) as u8, lens });
        txs.push(Some(tx));
        rxs.push(Some(rx));
    }
    let logs: Vec<Arc<Mutex<Vec<Item>>>> = (0..nstreams).map(|_| Arc::new(Mutex::new(Vec::new()))).collect();
    let last_drop_begin: Vec<Arc<AtomicU64>> = (0..nstreams).map(|_| Arc::new(AtomicU64::new(0))).collect();
    let wake_problems: Arc<Mutex<Vec<(String, Value)>>> = Arc::new(Mutex::new(Vec::new()));
    let pendings = Arc::new(AtomicU64::new(0));
    let wakes = Arc::new(AtomicU64::new(0));

    // ---- consumer threads: each converts its receivers into streams and consumes them
    let mut buckets: Vec<Vec<(usize, IpcReceiver<M>, u8)>> = (0..nconv_threads).map(|_| Vec::new()).collect();
    for (i, p) in plans.iter().enumerate() {
        let k = r.below(nconv_threads as u64) as usize;
        buckets[k].push((i, rxs[i].take().unwrap(), p.consumer));
    }
    let mut consumers = Vec::new();
    for b in buckets {
        let logs = logs.clone();
        let (wp, pend, wk) = (wake_problems.clone(), pendings.clone(), wakes.clone());
        let delay = r.below(800);
        consumers.push(std::thread::spawn(move || {
            std::thread::sleep(Duration::from_micros(delay));
            // convert all first (many streams created close together), then consume by kind
            let mut pool_items = Vec::new();
            let mut block_items = Vec::new();
            let mut manual_items = Vec::new();
            for (i, rx, kind) in b {
                let st = rx.to_stream().map(|x| x.map_err(|e| e.to_string()));
                match kind {
                    0 => block_items.push((i, st)),
                    1 => pool_items.push((i, st)),
                    _ => manual_items.push((i, st)),
                }
            }
            // LocalPool: all its streams progress concurrently on this thread
            let mut pool = LocalPool::new();
            let spawner = pool.spawner();
            for (i, mut st) in pool_items {
                let log = logs[i].clone();
                spawner
                    .spawn_local(async move {
                        loop {
                            let it = st.next().await;
                            let end = it.is_none();
                            log.lock().unwrap().push(record(case, it));
                            if end {
                                break;
                            }
                        }
                    })
                    .expect("spawn_local");
            }
            // manual polling with a counting waker, interleaved round-robin
            let mut manual: Vec<(usize, Pin<Box<dyn Stream<Item = Result<M, String>>>>, Arc<CountWaker>, u64, bool)> =
                manual_items.into_iter().map(|(i, st)| (i, Box::pin(st) as Pin<Box<dyn Stream<Item = Result<M, String>>>>, Arc::new(CountWaker(AtomicU64::new(0))), 0u64, false)).collect();
            let mut live = manual.len();
            while live > 0 {
                live = 0;
                for (i, st, cw, seen_wakes, done) in manual.iter_mut() {
                    if *done {
                        continue;
                    }
                    live += 1;
                    let w = waker(cw.clone());
                    let mut cx = Context::from_waker(&w);
                    // read the wake count *before* polling: a wake-up that arrives right after the
                    // poll registered the waker must count as the promised wake-up
                    let base = cw.0.load(Ordering::SeqCst);
                    match st.as_mut().poll_next(&mut cx) {
                        Poll::Ready(it) => {
                            let end = it.is_none();
                            logs[*i].lock().unwrap().push(record(case, it));
                            if end {
                                *done = true;
                            }
                        },
                        Poll::Pending => {
                            pend.fetch_add(1, Ordering::Relaxed);
                            // Every other time the stream is polled again at once by a *different* task
                            // (a fresh waker): the latest poll's waker is the one that must be woken.
                            let mut base = base;
                            if (*seen_wakes + *i as u64) % 2 == 0 {
                                let fresh = Arc::new(CountWaker(AtomicU64::new(0)));
                                let w2 = waker(fresh.clone());
                                let mut cx2 = Context::from_waker(&w2);
                                match st.as_mut().poll_next(&mut cx2) {
                                    Poll::Ready(it) => {
                                        let end = it.is_none();
                                        logs[*i].lock().unwrap().push(record(case, it));
                                        if end {
                                            *done = true;
                                        }
                                        *seen_wakes += 1;
                                        continue;
                                    },
                                    Poll::Pending => {
                                        *cw = fresh;
                                        base = 0;
                                        pend.fetch_add(1, Ordering::Relaxed);
                                    },
                                }
                            }
                            // the stream promised to wake this task when something arrives: wait for
                            // the wake-up (logical wait), never poll speculatively
                            let cw2 = cw.clone();
                            match await_cond(20_000, &move || cw2.0.load(Ordering::SeqCst) > base) {
                                Ok(true) => {
                                    wk.fetch_add(1, Ordering::Relaxed);
                                    *seen_wakes += 1;
                                },
                                Ok(false) => {
                                    wp.lock().unwrap().push(("waker-never-invoked-after-pending".into(), json!({"stream": *i})));
                                    *done = true;
                                },
                                Err(e) => {
                                    wp.lock().unwrap().push(("undecided".into(), json!({"stream": *i, "why": e})));
                                    *done = true;
                                },
                            }
                        },
                    }
                }
            }
            pool.run();
            for (i, mut st) in block_items {
                loop {
                    let it = block_on(st.next());
                    let end = it.is_none();
                    logs[i].lock().unwrap().push(record(case, it));
                    if end {
                        break;
                    }
                }
            }
        }));
    }
    // ---- producers
    let nprod = r.range(1, 5) as usize;
    let mut pb: Vec<Vec<(u32, u32, Vec<usize>, IpcSender<M>, Arc<AtomicU64>)>> = (0..nprod).map(|_| Vec::new()).collect();
    for (i, p) in plans.iter().enumerate() {
        let k = r.below(nprod as u64) as usize;
        pb[k].push((p.tag, p.pre, p.lens[p.pre as usize..].to_vec(), txs[i].take().unwrap(), last_drop_begin[i].clone()));
    }
    let mut producers = Vec::new();
    for list in pb {
        let slow = r.chance(500);
        producers.push(std::thread::spawn(move || {
            let mut cursors = vec![0usize; list.len()];
            let mut live = true;
            let mut errs = Vec::new();
            while live {
                live = false;
                for (j, (tag, from, lens, tx, _)) in list.iter().enumerate() {
                    if cursors[j] < lens.len() {
                        let seq = from + cursors[j] as u32;
                        if let Err(e) = tx.send((*tag, seq, Blob(body(mid(case, *tag, seq), lens[cursors[j]])))) {
                            errs.push(format!("stream {} seq {}: {}", tag, seq, e));
                        }
                        cursors[j] += 1;
                        live = true;
                    }
                }
                if slow {
                    std::thread::sleep(Duration::from_micros(200));
                }
            }
            for (_, _, _, tx, ldb) in list {
                ldb.store(now_ns(), Ordering::SeqCst);
                drop(tx);
            }
            errs
        }));
    }
    let mut send_errs = Vec::new();
    for p in producers {
        send_errs.extend(p.join().unwrap_or_default());
    }
    // consumers must finish: every stream ends after its last sender is gone (logical wait)
    let done = Arc::new(AtomicU64::new(0));
    let nc = consumers.len() as u64;
    let joiners: Vec<_> = consumers
        .into_iter()
        .map(|c| {
            let d = done.clone();
            std::thread::spawn(move || {
                let _ = c.join();
                d.fetch_add(1, Ordering::SeqCst);
            })
        })
        .collect();
    let d2 = done.clone();
    let mut problems: Vec<(String, Value)> = Vec::new();
    match await_cond(20_000, &move || d2.load(Ordering::SeqCst) >= nc) {
        Ok(true) => {
            for j in joiners {
                let _ = j.join();
            }
        },
        Ok(false) => problems.push(("stream-never-ends-after-last-sender-dropped".into(), json!({"consumers_finished": done.load(Ordering::SeqCst), "of": nc}))),
        Err(e) => {
            rep.inconclusive(&format!("c20 case {}: {}", case, e));
            return;
        },
    }
    for (k, d) in std::mem::take(&mut *wake_problems.lock().unwrap()) {
        if k == "undecided" {
            rep.inconclusive(&format!("c20 case {}: {}", case, d));
            return;
        }
        problems.push((k, d));
    }
    for e in send_errs {
        problems.push(("send-failed".into(), json!({"error": e})));
    }
    // ---- per-stream checks
    let mut order_sig = Vec::new();
    for (i, p) in plans.iter().enumerate() {
        let l = logs[i].lock().unwrap().clone();
        let seqs: Vec<u32> = l.iter().filter_map(|x| if let Item::Msg { seq, .. } = x { Some(*seq) } else { None }).collect();
        let want: Vec<u32> = (0..p.total).collect();
        let ended = l.iter().any(|x| matches!(x, Item::End { .. }));
        if seqs != want && (ended || problems.is_empty()) {
            let kind = if seqs.len() < want.len() { "messages-missing" } else if seqs.len() > want.len() { "messages-duplicated" } else { "messages-reordered" };
            problems.push((kind.into(), json!({"stream": i, "want": want.len(), "got": seqs.iter().take(60).collect::<Vec<_>>(), "queued_before_conversion": p.pre, "consumer": p.consumer})));
        }
        for x in &l {
            match x {
                Item::Msg { tag, ok, seq, .. } => {
                    if *tag != p.tag {
                        problems.push(("message-of-another-stream".into(), json!({"stream": i, "payload_tag": tag, "seq": seq})));
                    } else if !*ok {
                        problems.push(("payload-differs".into(), json!({"stream": i, "seq": seq})));
                    }
                },
                Item::DecodeErr(e) => problems.push(("decode-error".into(), json!({"stream": i, "error": e}))),
                Item::End { at } => {
                    let ldb = last_drop_begin[i].load(Ordering::SeqCst);
                    if ldb == 0 || *at < ldb {
                        problems.push(("end-of-stream-while-sender-alive".into(), json!({"stream": i})));
                    }
                },
            }
        }
        if let Some(pos) = l.iter().position(|x| matches!(x, Item::End { .. })) {
            if pos + 1 != l.len() {
                problems.push(("item-after-end-of-stream".into(), json!({"stream": i})));
            }
        }
        order_sig.push((p.consumer, p.pre.min(3), seqs.len().min(3)));
    }
    rep.case(&(order_sig, nconv_threads), nstreams >= 2);
    rep.stat("scenarios", 1);
    rep.stat("streams", nstreams as i64);
    rep.stat("messages", plans.iter().map(|p| p.total as i64).sum());
    rep.stat("queued_before_conversion", plans.iter().map(|p| p.pre as i64).sum());
    rep.stat("pending_polls", pendings.load(Ordering::Relaxed) as i64);
    rep.stat("wakeups_observed", wakes.load(Ordering::Relaxed) as i64);
    for k in 0..3 {
        rep.stat(&format!("consumer_{}", ["block_on", "LocalPool", "manual"][k]), plans.iter().filter(|p| p.consumer == k as u8).count() as i64);
    }
    rep.stat_max("streams_in_one_scenario", nstreams as i64);
    let base = json!({"case": case, "streams": nstreams, "converting_threads": nconv_threads, "producer_threads": nprod,
        "totals": plans.iter().map(|p| p.total).collect::<Vec<_>>(), "prequeued": plans.iter().map(|p| p.pre).collect::<Vec<_>>(),
        "consumers": plans.iter().map(|p| p.consumer).collect::<Vec<_>>()});
    let mut seen = std::collections::BTreeSet::new();
    for (k, d) in problems {
        if seen.insert(k.clone()) {
            rep.violation(&format!("C20:{}", k), json!({"ctx": base, "problem": d}), ctx.replay(case));
        }
    }
    if case % 7 == 0 {
        rep.sample(json!({"ctx": base, "clean": seen.is_empty()}));
    }
}

/// A burst of conversions on idle channels, then one message at a time, last-created stream first,
/// while everything else stays quiet: each must be delivered and end-of-stream must follow the drop.
pub fn run_idle_burst(ctx: &Ctx, case: u64) {
    let rep = &ctx.rep;
    let mut r = Rng::derive(ctx.seed, 0xc20b, case);
    let k = r.range(2, 32) as usize;
    let mut txs = Vec::new();
    let mut rxs = Vec::new();
    for _ in 0..k {
        let (tx, rx) = must("channel", ipc::channel::<M>());
        txs.push(Some(tx));
        rxs.push(rx);
    }
    // the burst
    let mut streams: Vec<_> = rxs.into_iter().map(|rx| rx.to_stream()).collect();
    let mut problems: Vec<(String, Value)> = Vec::new();
    let order: Vec<usize> = if r.chance(700) { (0..k).rev().collect() } else { let mut o: Vec<usize> = (0..k).collect(); r.shuffle(&mut o); o };
    for (n, &i) in order.iter().enumerate() {
        let tag = i as u32;
        if txs[i].as_ref().unwrap().send((tag, 0, Blob(body(mid(case, tag, 0), 40)))).is_err() {
            problems.push(("send-failed".into(), json!({"stream": i})));
            continue;
        }
        // manual polling with a counting waker and a logical wait for the wake-up
        let cw = Arc::new(CountWaker(AtomicU64::new(0)));
        let mut got = None;
        for _ in 0..3 {
            let base = cw.0.load(Ordering::SeqCst);
            let w = waker(cw.clone());
            let mut cx = Context::from_waker(&w);
            match Pin::new(&mut streams[i]).poll_next(&mut cx) {
                Poll::Ready(it) => {
                    got = Some(it);
                    break;
                },
                Poll::Pending => {
                    let cw2 = cw.clone();
                    match await_cond(20_000, &move || cw2.0.load(Ordering::SeqCst) > base) {
                        Ok(true) => continue,
                        Ok(false) => {
                            problems.push(("idle-burst:message-never-delivered".into(), json!({"stream": i, "created_streams": k, "position_in_order": n})));
                            break;
                        },
                        Err(e) => {
                            rep.inconclusive(&format!("c20 burst case {}: {}", case, e));
                            return;
                        },
                    }
                },
            }
        }
        match got {
            Some(Some(Ok((t, 0, b)))) if t == tag && body_diff(mid(case, tag, 0), 40, &b.0).is_none() => {},
            Some(other) => problems.push(("idle-burst:wrong-item".into(), json!({"stream": i, "got": format!("{:?}", other.map(|x| x.map(|m| (m.0, m.1)).map_err(|e| e.to_string())))}))),
            None => {},
        }
        if !problems.is_empty() {
            break;
        }
    }
    // end of stream after the drops
    if problems.is_empty() {
        for i in 0..k {
            txs[i] = None;
        }
        for (i, st) in streams.iter_mut().enumerate() {
            let cw = Arc::new(CountWaker(AtomicU64::new(0)));
            let mut ended = false;
            for _ in 0..3 {
                let base = cw.0.load(Ordering::SeqCst);
                let w = waker(cw.clone());
                let mut cx = Context::from_waker(&w);
                match Pin::new(&mut *st).poll_next(&mut cx) {
                    Poll::Ready(None) => {
                        ended = true;
                        break;
                    },
                    Poll::Ready(Some(_)) => {
                        problems.push(("idle-burst:item-after-all-were-consumed".into(), json!({"stream": i})));
                        break;
                    },
                    Poll::Pending => {
                        let cw2 = cw.clone();
                        match await_cond(20_000, &move || cw2.0.load(Ordering::SeqCst) > base) {
                            Ok(true) => continue,
                            Ok(false) => break,
                            Err(e) => {
                                rep.inconclusive(&format!("c20 burst case {}: {}", case, e));
                                return;
                            },
                        }
                    },
                }
            }
            if !ended && problems.is_empty() {
                problems.push(("idle-burst:stream-never-ends".into(), json!({"stream": i, "created_streams": k})));
                break;
            }
        }
    }
    rep.case(&("idle-burst", k, order.first().cloned()), true);
    rep.stat("idle_burst_scenarios", 1);
    rep.stat("idle_burst_streams", k as i64);
    let base = json!({"case": case, "scenario": "idle-burst", "streams": k});
    let mut seen = std::collections::BTreeSet::new();
    for (kind, d) in problems {
        if seen.insert(kind.clone()) {
            rep.violation(&format!("C20:{}", kind), json!({"ctx": base, "problem": d}), ctx.replay(case));
        }
    }
}

/// Pairs of conversions a few microseconds apart, then silence: the second receiver already holds a
/// message, which its stream must yield although nothing else happens anywhere (a registration
/// that the routing thread overlooks stays unnoticed as long as other traffic keeps it cycling).
pub fn run_pair_storm(ctx: &Ctx, case: u64) {
    let rep = &ctx.rep;
    let mut r = Rng::derive(ctx.seed, 0xc20c, case);
    let trials = ctx.opt_u64("pair_trials", 200);
    let mut problems: Vec<(String, Value)> = Vec::new();
    let mut done = 0u64;
    for t in 0..trials {
        let (txa, rxa) = must("channel", ipc::channel::<M>());
        let (txb, rxb) = must("channel", ipc::channel::<M>());
        let tag = t as u32;
        if txb.send((tag, 0, Blob(body(mid(case, tag, 0), 24)))).is_err() {
            problems.push(("send-failed".into(), json!({"trial": t})));
            break;
        }
        let gap_ns = r.below(150_000);
        let sa = rxa.to_stream();
        let t0 = now_ns();
        while now_ns() - t0 < gap_ns {
            std::hint::spin_loop();
        }
        let mut sb = rxb.to_stream();
        let cw = Arc::new(CountWaker(AtomicU64::new(0)));
        let mut got = None;
        for _ in 0..3 {
            let base = cw.0.load(Ordering::SeqCst);
            let w = waker(cw.clone());
            let mut cx = Context::from_waker(&w);
            match Pin::new(&mut sb).poll_next(&mut cx) {
                Poll::Ready(it) => {
                    got = Some(it);
                    break;
                },
                Poll::Pending => {
                    let cw2 = cw.clone();
                    match await_cond(20_000, &move || cw2.0.load(Ordering::SeqCst) > base) {
                        Ok(true) => continue,
                        Ok(false) => {
                            problems.push(("pair:queued-message-never-delivered".into(), json!({"trial": t, "gap_ns": gap_ns,
                                "why": "stream created right after another one; its queued message was not yielded although every thread is idle"})));
                            break;
                        },
                        Err(e) => {
                            rep.inconclusive(&format!("c20 pair case {}: {}", case, e));
                            return;
                        },
                    }
                },
            }
        }
        match got {
            Some(Some(Ok((tg, 0, b)))) if tg == tag && body_diff(mid(case, tag, 0), 24, &b.0).is_none() => {},
            Some(other) => problems.push(("pair:wrong-item".into(), json!({"trial": t, "got": format!("{:?}", other.map(|x| x.map(|m| (m.0, m.1)).map_err(|e| e.to_string())))}))),
            None => {},
        }
        done += 1;
        drop((txa, txb, sa, sb));
        if !problems.is_empty() {
            break;
        }
    }
    rep.case(&("pair-storm", case), true);
    rep.stat("pair_storm_scenarios", 1);
    rep.stat("pair_storm_trials", done as i64);
    let base = json!({"case": case, "scenario": "pair-storm", "trials": done});
    let mut seen = std::collections::BTreeSet::new();
    for (kind, d) in problems {
        if seen.insert(kind.clone()) {
            rep.violation(&format!("C20:{}", kind), json!({"ctx": base, "problem": d}), ctx.replay(case));
        }
    }
}

pub fn run(ctx: &Ctx) {
    let n = ctx.opt_u64("cases", if ctx.thorough { 300 } else { 20 });
    for i in 0..n {
        let case = ctx.batch * 1_000_000 + i;
        if !ctx.want(case) {
            continue;
        }
        if i % 4 == 3 {
            run_pair_storm(ctx, case);
        } else if i % 3 == 2 {
            run_idle_burst(ctx, case);
        } else {
            run_case(ctx, case);
        }
        if ctx.rep.nviol.load(Ordering::Relaxed) >= 2 {
            break;
        }
    }
}
