//! Shared monitor plumbing: PRNG, stamps, report writer, interposer client,
//! /proc inspection and the logical hang detector (DESIGN.md 3.5).
#![allow(dead_code)]

use serde_json::{json, Value};
use std::collections::hash_map::DefaultHasher;
use std::collections::{BTreeMap, BTreeSet};
use std::fs;
use std::hash::{Hash, Hasher};
use std::io::Write;
use std::sync::atomic::{AtomicBool, AtomicI32, AtomicU64, Ordering};
use std::sync::mpsc;
use std::sync::{Arc, Mutex};
use std::time::Duration;

// ---------------------------------------------------------------- PRNG

pub fn mix(mut x: u64) -> u64 {
    x = x.wrapping_add(0x9e3779b97f4a7c15);
    x = (x ^ (x >> 30)).wrapping_mul(0xbf58476d1ce4e5b9);
    x = (x ^ (x >> 27)).wrapping_mul(0x94d049bb133111eb);
    x ^ (x >> 31)
}

#[derive(Clone)]
pub struct Rng(pub u64);

impl Rng {
    pub fn new(seed: u64) -> Rng {
        Rng(mix(seed ^ 0x1234_5678_9abc_def0))
    }
    pub fn derive(seed: u64, a: u64, b: u64) -> Rng {
        Rng(mix(mix(seed).wrapping_add(mix(a.wrapping_mul(0x9e37_79b9))).wrapping_add(b)))
    }
    pub fn next(&mut self) -> u64 {
        self.0 = self.0.wrapping_add(0x9e3779b97f4a7c15);
        mix(self.0)
    }
    /// uniform in 0..n (n > 0)
    pub fn below(&mut self, n: u64) -> u64 {
        self.next() % n
    }
    pub fn range(&mut self, lo: u64, hi_incl: u64) -> u64 {
        lo + self.below(hi_incl - lo + 1)
    }
    pub fn chance(&mut self, permille: u64) -> bool {
        self.below(1000) < permille
    }
    pub fn pick<'a, T>(&mut self, xs: &'a [T]) -> &'a T {
        &xs[self.below(xs.len() as u64) as usize]
    }
    pub fn shuffle<T>(&mut self, xs: &mut [T]) {
        for i in (1..xs.len()).rev() {
            let j = self.below(i as u64 + 1) as usize;
            xs.swap(i, j);
        }
    }
}

pub fn hash_of<T: Hash>(t: &T) -> u64 {
    let mut h = DefaultHasher::new();
    t.hash(&mut h);
    h.finish()
}

// ---------------------------------------------------------------- stamps

pub fn now_ns() -> u64 {
    let mut ts = libc::timespec { tv_sec: 0, tv_nsec: 0 };
    unsafe { libc::clock_gettime(libc::CLOCK_MONOTONIC, &mut ts) };
    ts.tv_sec as u64 * 1_000_000_000 + ts.tv_nsec as u64
}

pub fn gettid() -> i32 {
    unsafe { libc::syscall(libc::SYS_gettid) as i32 }
}

// ---------------------------------------------------------------- bodies

/// Position- and id-dependent message body. Word 0 = id, word 1 = len, word i =
/// mix(id, i). Truncated to `len`; shifted, duplicated or mixed fragments of
/// different messages cannot collide.
pub fn body(id: u64, len: usize) -> Vec<u8> {
    let mut v = Vec::with_capacity(len + 8);
    let mut i = 0u64;
    while v.len() < len {
        let w = match i {
            0 => id,
            1 => len as u64,
            _ => mix(id ^ i.wrapping_mul(0xa076_1d64_78bd_642f)),
        };
        v.extend_from_slice(&w.to_le_bytes());
        i += 1;
    }
    v.truncate(len);
    v
}

static TOUCH_MAGIC: AtomicU64 = AtomicU64::new(0x7e57_ab1e_0dd5_eed5);

/// Read every byte of a received payload and branch on a digest of all of them: under valgrind
/// memcheck (or MemorySanitizer) a byte the transport never wrote makes this branch depend on an
/// uninitialised value, wherever in the payload it sits and whatever the comparison with the
/// expected body did before.
pub fn touch_all(data: &[u8]) {
    let mut h: u64 = 0xcbf29ce484222325;
    for &b in data {
        h = (h ^ b as u64).wrapping_mul(0x100000001b3);
    }
    if h == TOUCH_MAGIC.load(Ordering::Relaxed) {
        TOUCH_MAGIC.store(h.wrapping_add(1), Ordering::Relaxed);
    }
    // The branch above may be compiled to a conditional move, which memcheck does not report.
    // Handing the digest to a system call is reported reliably ("Syscall param write(buf) points to
    // uninitialised byte(s)"); the descriptor is invalid on purpose. Only done when asked for.
    if definedness_probe() {
        unsafe { libc::write(-1, &h as *const u64 as *const libc::c_void, 8) };
    }
}

pub fn definedness_probe() -> bool {
    static ON: std::sync::OnceLock<bool> = std::sync::OnceLock::new();
    *ON.get_or_init(|| std::env::var("VERIF_DEFINEDNESS").map(|v| v == "1").unwrap_or(false))
}

/// First offset at which `data` differs from `body(id, data.len())`, or a length mismatch.
pub fn body_diff(id: u64, want_len: usize, data: &[u8]) -> Option<String> {
    touch_all(data);
    if data.len() != want_len {
        return Some(format!("length {} != sent {}", data.len(), want_len));
    }
    let exp = body(id, want_len);
    if exp == data {
        return None;
    }
    let off = exp.iter().zip(data.iter()).position(|(a, b)| a != b).unwrap();
    let hi = (off + 8).min(data.len());
    Some(format!(
        "first difference at offset {} of {}: got {:02x?} want {:02x?}",
        off,
        want_len,
        &data[off..hi],
        &exp[off..hi]
    ))
}

/// Parse (id, len) out of a body of at least 16 bytes.
pub fn body_ident(data: &[u8]) -> Option<(u64, usize)> {
    if data.len() < 16 {
        return None;
    }
    let id = u64::from_le_bytes(data[0..8].try_into().unwrap());
    let len = u64::from_le_bytes(data[8..16].try_into().unwrap()) as usize;
    Some((id, len))
}

// ---------------------------------------------------------------- report

pub struct Report {
    out: Mutex<Box<dyn Write + Send>>,
    pub evals: AtomicU64,
    distinct: Mutex<BTreeSet<u64>>,
    nsamples: AtomicU64,
    max_samples: u64,
    stats: Mutex<BTreeMap<String, i64>>,
    pub nviol: AtomicU64,
    meta: Value,
}

impl Report {
    pub fn new(path: Option<&str>, meta: Value) -> Arc<Report> {
        let out: Box<dyn Write + Send> = match path {
            Some(p) => Box::new(fs::File::create(p).expect("create report file")),
            None => Box::new(std::io::stdout()),
        };
        Arc::new(Report {
            out: Mutex::new(out),
            evals: AtomicU64::new(0),
            distinct: Mutex::new(BTreeSet::new()),
            nsamples: AtomicU64::new(0),
            max_samples: 3,
            stats: Mutex::new(BTreeMap::new()),
            nviol: AtomicU64::new(0),
            meta,
        })
    }
    fn line(&self, v: &Value) {
        let mut o = self.out.lock().unwrap();
        let _ = writeln!(o, "{}", v);
        let _ = o.flush();
    }
    /// One evaluated case. `key` identifies it for distinct counting; trivial cases are
    /// counted as evaluations only.
    pub fn case<K: Hash>(&self, key: &K, nontrivial: bool) {
        self.evals.fetch_add(1, Ordering::Relaxed);
        if nontrivial {
            self.distinct.lock().unwrap().insert(hash_of(key));
        }
    }
    pub fn sample(&self, v: Value) {
        if self.nsamples.fetch_add(1, Ordering::Relaxed) < self.max_samples {
            self.line(&json!({"t":"sample","v":v}));
        }
    }
    pub fn stat(&self, k: &str, n: i64) {
        *self.stats.lock().unwrap().entry(k.to_string()).or_insert(0) += n;
    }
    pub fn stat_max(&self, k: &str, n: i64) {
        let mut s = self.stats.lock().unwrap();
        let e = s.entry(format!("max_{}", k)).or_insert(i64::MIN);
        if n > *e {
            *e = n;
        }
    }
    /// A refuted clause. `sig` is the stable signature known findings are keyed on.
    pub fn violation(&self, sig: &str, detail: Value, replay: Value) {
        let n = self.nviol.fetch_add(1, Ordering::Relaxed);
        if n < 50 {
            self.line(&json!({"t":"viol","sig":sig,"detail":detail,"replay":replay}));
        }
    }
    pub fn raw(&self, v: Value) {
        self.line(&v);
    }
    pub fn inconclusive(&self, why: &str) {
        self.line(&json!({"t":"inconclusive","why":why}));
    }
    pub fn finish(&self) {
        let d: Vec<String> = self.distinct.lock().unwrap().iter().map(|h| format!("{:x}", h)).collect();
        let stats = self.stats.lock().unwrap().clone();
        let mut mstats = serde_json::Map::new();
        for (k, v) in stats {
            mstats.insert(k, json!(v));
        }
        if let Some(m) = mon() {
            mstats.insert("mon_enobufs_injected".into(), json!(m.stat(0)));
            mstats.insert("mon_delays".into(), json!(m.stat(1)));
            mstats.insert("mon_widened".into(), json!(m.stat(2)));
            mstats.insert("mon_eintr_injected".into(), json!(m.stat(3)));
            mstats.insert("mon_poisoned_buffers".into(), json!(m.stat(4)));
            mstats.insert("mon_msg_ctrunc".into(), json!(m.stat(5)));
            mstats.insert("mon_msg_trunc".into(), json!(m.stat(6)));
            mstats.insert("mon_epoll_full".into(), json!(m.stat(7)));
            for (i, name) in CALL_NAMES.iter().enumerate() {
                let c = m.call_count(i as i32);
                if c > 0 {
                    mstats.insert(format!("sys_{}", name), json!(c));
                }
            }
        }
        self.line(&json!({
            "t":"summary",
            "meta": self.meta,
            "evaluations": self.evals.load(Ordering::Relaxed),
            "distinct": d,
            "violations": self.nviol.load(Ordering::Relaxed),
            "stats": Value::Object(mstats),
        }));
    }
}

pub const CALL_NAMES: [&str; 23] = [
    "none", "socket", "socketpair", "bind", "listen", "connect", "accept", "sendmsg", "send", "recvmsg",
    "recv", "close", "dup", "fcntl", "getsockopt", "setsockopt", "epoll_wait", "poll", "mmap", "munmap",
    "shm_open", "shm_unlink", "ftruncate",
];
pub const C_SOCKET: i32 = 1;
pub const C_SOCKETPAIR: i32 = 2;
pub const C_BIND: i32 = 3;
pub const C_LISTEN: i32 = 4;
pub const C_CONNECT: i32 = 5;
pub const C_ACCEPT: i32 = 6;
pub const C_SETSOCKOPT: i32 = 15;

pub const W_FIRSTFRAG: i32 = 1;
pub const W_NONBLOCK: i32 = 2;
pub const W_EPOLL: i32 = 4;
pub const W_CLOSE: i32 = 8;
pub const W_FOLLOWUP: i32 = 16;
pub const W_RECVFRAG: i32 = 32;

// ---------------------------------------------------------------- interposer client

pub struct Mon {
    set_foreign: unsafe extern "C" fn(i32),
    set_nodelay: unsafe extern "C" fn(i32),
    mark_foreign_fd: unsafe extern "C" fn(i32, i32),
    arm_enobufs: unsafe extern "C" fn(u64, i32),
    disarm_enobufs: unsafe extern "C" fn() -> i32,
    arm_kill: unsafe extern "C" fn(i32),
    disarm_kill: unsafe extern "C" fn() -> i32,
    count_kill_calls: unsafe extern "C" fn(),
    fail_next: unsafe extern "C" fn(i32, i32, i32),
    fail_pending: unsafe extern "C" fn() -> i32,
    set_delay: unsafe extern "C" fn(u64, i32, i32),
    set_widen: unsafe extern "C" fn(i32, i32, i32),
    set_shm_widen: unsafe extern "C" fn(i32),
    set_poison: unsafe extern "C" fn(i32),
    eintr_epoll: unsafe extern "C" fn(i32),
    alarm_count: unsafe extern "C" fn() -> i32,
    alarm_text: unsafe extern "C" fn(*mut libc::c_char, i32) -> i32,
    alarm_reset: unsafe extern "C" fn(),
    call_count: unsafe extern "C" fn(i32) -> u64,
    stat: unsafe extern "C" fn(i32) -> u64,
    note: unsafe extern "C" fn(*const libc::c_char),
    fake_sndbuf: unsafe extern "C" fn() -> i32,
}

unsafe fn sym(name: &str) -> *mut libc::c_void {
    let c = std::ffi::CString::new(name).unwrap();
    libc::dlsym(libc::RTLD_DEFAULT, c.as_ptr())
}

static MON: std::sync::OnceLock<Option<Mon>> = std::sync::OnceLock::new();

pub fn mon() -> Option<&'static Mon> {
    if cfg!(miri) {
        return None; // Miri cannot call into the interposer
    }
    MON.get_or_init(|| unsafe {
        if sym("ipcmon_present").is_null() {
            return None;
        }
        macro_rules! f {
            ($n:expr) => {
                std::mem::transmute(sym($n))
            };
        }
        Some(Mon {
            set_foreign: f!("ipcmon_set_foreign"),
            set_nodelay: f!("ipcmon_set_nodelay"),
            mark_foreign_fd: f!("ipcmon_mark_foreign_fd"),
            arm_enobufs: f!("ipcmon_arm_enobufs"),
            disarm_enobufs: f!("ipcmon_disarm_enobufs"),
            arm_kill: f!("ipcmon_arm_kill"),
            disarm_kill: f!("ipcmon_disarm_kill"),
            count_kill_calls: f!("ipcmon_count_kill_calls"),
            fail_next: f!("ipcmon_fail_next"),
            fail_pending: f!("ipcmon_fail_pending"),
            set_delay: f!("ipcmon_set_delay"),
            set_widen: f!("ipcmon_set_widen"),
            set_shm_widen: f!("ipcmon_set_shm_widen"),
            set_poison: f!("ipcmon_set_poison"),
            eintr_epoll: f!("ipcmon_eintr_epoll"),
            alarm_count: f!("ipcmon_alarm_count"),
            alarm_text: f!("ipcmon_alarm_text"),
            alarm_reset: f!("ipcmon_alarm_reset"),
            call_count: f!("ipcmon_call_count"),
            stat: f!("ipcmon_stat"),
            note: f!("ipcmon_note"),
            fake_sndbuf: f!("ipcmon_fake_sndbuf"),
        })
    })
    .as_ref()
}

/// The interposer is mandatory for families that need fault injection.
pub fn need_mon() -> &'static Mon {
    match mon() {
        Some(m) => m,
        None => {
            eprintln!("INCONCLUSIVE: ipcmon interposer not loaded (LD_PRELOAD)");
            std::process::exit(3);
        },
    }
}

impl Mon {
    pub fn set_foreign(&self, on: bool) { unsafe { (self.set_foreign)(on as i32) } }
    pub fn set_nodelay(&self, on: bool) { unsafe { (self.set_nodelay)(on as i32) } }
    pub fn mark_foreign_fd(&self, fd: i32, on: bool) { unsafe { (self.mark_foreign_fd)(fd, on as i32) } }
    pub fn arm_enobufs(&self, bits: u64, n: i32) { unsafe { (self.arm_enobufs)(bits, n) } }
    pub fn disarm_enobufs(&self) -> i32 { unsafe { (self.disarm_enobufs)() } }
    pub fn arm_kill(&self, k: i32) { unsafe { (self.arm_kill)(k) } }
    pub fn disarm_kill(&self) -> i32 { unsafe { (self.disarm_kill)() } }
    pub fn count_kill_calls(&self) { unsafe { (self.count_kill_calls)() } }
    pub fn fail_next(&self, call: i32, errno: i32, skip: i32) { unsafe { (self.fail_next)(call, errno, skip) } }
    pub fn fail_pending(&self) -> i32 { unsafe { (self.fail_pending)() } }
    pub fn set_delay(&self, seed: u64, permille: i32, max_us: i32) { unsafe { (self.set_delay)(seed, permille, max_us) } }
    pub fn set_widen(&self, flags: i32, us: i32, minlen: i32) { unsafe { (self.set_widen)(flags, us, minlen) } }
    pub fn set_shm_widen(&self, us: i32) { unsafe { (self.set_shm_widen)(us) } }
    pub fn set_poison(&self, on: bool) { unsafe { (self.set_poison)(on as i32) } }
    pub fn eintr_epoll(&self, n: i32) { unsafe { (self.eintr_epoll)(n) } }
    pub fn alarm_count(&self) -> i32 { unsafe { (self.alarm_count)() } }
    pub fn alarm_text(&self) -> String {
        let mut buf = vec![0u8; 4096];
        let n = unsafe { (self.alarm_text)(buf.as_mut_ptr() as *mut libc::c_char, buf.len() as i32) };
        String::from_utf8_lossy(&buf[..n as usize]).into_owned()
    }
    pub fn alarm_reset(&self) { unsafe { (self.alarm_reset)() } }
    pub fn call_count(&self, c: i32) -> u64 { unsafe { (self.call_count)(c) } }
    pub fn stat(&self, w: i32) -> u64 { unsafe { (self.stat)(w) } }
    pub fn note(&self, s: &str) {
        let c = std::ffi::CString::new(s).unwrap();
        unsafe { (self.note)(c.as_ptr()) }
    }
    pub fn fake_sndbuf(&self) -> i32 { unsafe { (self.fake_sndbuf)() } }
}

// ---------------------------------------------------------------- /proc inspection

#[derive(Debug, Clone, PartialEq)]
pub struct TaskSnap {
    pub state: char,
    pub cpu: u64,
    pub syscall: i64,
}

pub fn task_snap(pid: i32, tid: i32) -> Option<TaskSnap> {
    let stat = fs::read_to_string(format!("/proc/{}/task/{}/stat", pid, tid)).ok()?;
    let rp = stat.rfind(')')?;
    let f: Vec<&str> = stat[rp + 2..].split_whitespace().collect();
    let state = f.first()?.chars().next()?;
    let utime: u64 = f.get(11)?.parse().ok()?;
    let stime: u64 = f.get(12)?.parse().ok()?;
    let sc = fs::read_to_string(format!("/proc/{}/task/{}/syscall", pid, tid)).ok()?;
    let syscall = sc.split_whitespace().next().and_then(|s| s.parse::<i64>().ok()).unwrap_or(-1);
    Some(TaskSnap { state, cpu: utime + stime, syscall })
}

pub fn syscall_name(nr: i64) -> &'static str {
    match nr {
        0 => "read",
        7 => "poll",
        43 => "accept",
        44 => "sendto",
        45 => "recvfrom",
        46 => "sendmsg",
        47 => "recvmsg",
        202 => "futex",
        232 => "epoll_wait",
        271 => "ppoll",
        281 => "epoll_pwait",
        288 => "accept4",
        _ => "other",
    }
}

/// Wait until thread `tid` of this process sleeps inside one of `syscalls`. Returns false on timeout.
pub fn wait_in_syscall(tid: i32, syscalls: &[i64], timeout_ms: u64) -> bool {
    let pid = std::process::id() as i32;
    let t0 = now_ns();
    loop {
        if let Some(s) = task_snap(pid, tid) {
            if s.state == 'S' && syscalls.contains(&s.syscall) {
                return true;
            }
        }
        if now_ns() - t0 > timeout_ms * 1_000_000 {
            return false;
        }
        std::thread::sleep(Duration::from_micros(200));
    }
}

pub const BLOCKING_RECV_SYSCALLS: [i64; 6] = [45, 47, 232, 281, 7, 271];

pub fn fd_table() -> BTreeMap<i32, String> {
    let mut m = BTreeMap::new();
    if let Ok(rd) = fs::read_dir("/proc/self/fd") {
        // collect first: the directory handle itself is an fd
        let names: Vec<_> = rd.filter_map(|e| e.ok()).map(|e| e.file_name()).collect();
        for n in names {
            if let Some(fd) = n.to_str().and_then(|s| s.parse::<i32>().ok()) {
                if let Ok(t) = fs::read_link(format!("/proc/self/fd/{}", fd)) {
                    m.insert(fd, t.to_string_lossy().into_owned());
                }
            }
        }
    }
    m
}

pub fn fd_count() -> usize {
    fd_table().len()
}

pub fn fd_cloexec(fd: i32) -> Option<bool> {
    let r = unsafe { libc::syscall(libc::SYS_fcntl, fd, libc::F_GETFD) };
    if r < 0 {
        None
    } else {
        Some((r as i32 & libc::FD_CLOEXEC) != 0)
    }
}

/// Shared file mappings of this process that belong to shm/memfd regions.
pub fn shared_maps() -> Vec<String> {
    let mut v = Vec::new();
    if let Ok(s) = fs::read_to_string("/proc/self/maps") {
        for l in s.lines() {
            if l.contains("ipc-channel-shared-memory") || l.contains("/memfd:") {
                v.push(l.to_string());
            }
        }
    }
    v
}

// ---------------------------------------------------------------- panic hook

static PANIC_LOG: Mutex<Vec<String>> = Mutex::new(Vec::new());
static PANIC_QUIET: AtomicBool = AtomicBool::new(false);

pub fn install_panic_hook() {
    std::panic::set_hook(Box::new(|info| {
        let loc = info.location().map(|l| format!("{}:{}", l.file(), l.line())).unwrap_or_default();
        let msg = if let Some(s) = info.payload().downcast_ref::<&str>() {
            s.to_string()
        } else if let Some(s) = info.payload().downcast_ref::<String>() {
            s.clone()
        } else {
            "?".to_string()
        };
        let th = std::thread::current().name().unwrap_or("?").to_string();
        let line = format!("panic thread={} at {} : {}", th, loc, msg);
        // quiet mode still shows the first few: a panic that cannot unwind aborts the process and
        // the only trace of it is what reached stderr
        static SHOWN: AtomicU64 = AtomicU64::new(0);
        if !PANIC_QUIET.load(Ordering::Relaxed) || SHOWN.fetch_add(1, Ordering::Relaxed) < 20 {
            eprintln!("{}", line);
        }
        PANIC_LOG.lock().unwrap_or_else(|e| e.into_inner()).push(line);
    }));
}

pub fn panic_quiet(q: bool) {
    PANIC_QUIET.store(q, Ordering::Relaxed);
}

pub fn take_panics() -> Vec<String> {
    std::mem::take(&mut *PANIC_LOG.lock().unwrap_or_else(|e| e.into_inner()))
}

pub fn panic_count() -> usize {
    PANIC_LOG.lock().unwrap_or_else(|e| e.into_inner()).len()
}

// ---------------------------------------------------------------- logical hang detector

pub enum Watch<T> {
    Done(T),
    /// The call is provably stuck: sleeping in the same blocking system call, consuming no CPU,
    /// after the caller asserted that nothing can wake it any more.
    Stuck(String),
    /// It did not return, but the evidence for "stuck" is incomplete.
    Unknown(String),
    Panicked(String),
}

/// Run `f` on a helper thread. `settled` must return true once the enabling condition holds and
/// every other actor that could influence the call has finished (rule 3.5 (i)+(ii)); from that
/// moment the call gets `grace_ms` to return before /proc is consulted.
pub fn watch<T: Send + 'static>(
    name: &str,
    grace_ms: u64,
    settled: &dyn Fn() -> bool,
    f: impl FnOnce() -> T + Send + 'static,
) -> Watch<T> {
    let (tx, rx) = mpsc::channel();
    let tid = Arc::new(AtomicI32::new(0));
    let tid2 = tid.clone();
    let h = std::thread::Builder::new()
        .name(format!("watched-{}", name))
        .spawn(move || {
            tid2.store(gettid(), Ordering::SeqCst);
            let r = std::panic::catch_unwind(std::panic::AssertUnwindSafe(f));
            let _ = tx.send(r);
        })
        .expect("spawn watched thread");
    let hard_cap_ms = 120_000u64;
    let t0 = now_ns();
    let mut settled_at: Option<u64> = None;
    // deadlock rule: even if the scenario never "settles" (e.g. the senders are blocked too), a
    // process tree in which every thread sleeps without using CPU for 45 s cannot make progress
    let mut idle_since: Option<u64> = None;
    let mut last_tree: Vec<(i32, i32, char, u64)> = Vec::new();
    let mut last_tree_at = 0u64;
    loop {
        match rx.recv_timeout(Duration::from_millis(20)) {
            Ok(Ok(v)) => {
                let _ = h.join();
                return Watch::Done(v);
            },
            Ok(Err(p)) => {
                let _ = h.join();
                let msg = p
                    .downcast_ref::<String>()
                    .cloned()
                    .or_else(|| p.downcast_ref::<&str>().map(|s| s.to_string()))
                    .unwrap_or_else(|| "?".into());
                return Watch::Panicked(msg);
            },
            Err(mpsc::RecvTimeoutError::Disconnected) => return Watch::Unknown("worker vanished".into()),
            Err(mpsc::RecvTimeoutError::Timeout) => {},
        }
        let now = now_ns();
        if settled_at.is_none() && settled() {
            settled_at = Some(now);
        }
        if settled_at.is_none() && now - last_tree_at > 1_000_000_000 {
            let cur = tree_snapshot(gettid());
            let idle = !last_tree.is_empty() && cur.len() == last_tree.len()
                && cur.iter().zip(last_tree.iter()).all(|(x, y)| x.0 == y.0 && x.1 == y.1 && (x.2 == 'S' || x.2 == 'Z') && x.2 == y.2 && x.3 == y.3);
            if idle {
                let since = *idle_since.get_or_insert(last_tree_at);
                if now - since > 45_000_000_000 {
                    return Watch::Stuck(format!(
                        "{}: not returned, and every thread of this process and of its children has been asleep without using CPU for {} s: nothing can make progress (deadlock)",
                        name,
                        (now - since) / 1_000_000_000
                    ));
                }
            } else {
                idle_since = None;
            }
            last_tree = cur;
            last_tree_at = now;
        }
        if let Some(s) = settled_at {
            if now - s > grace_ms * 1_000_000 {
                let pid = std::process::id() as i32;
                let t = tid.load(Ordering::SeqCst);
                let a = task_snap(pid, t);
                std::thread::sleep(Duration::from_millis(1000));
                if let Ok(_r) = rx.try_recv() {
                    // returned during the sampling second: late but alive
                    return Watch::Unknown(format!("{} returned only after {} ms grace", name, grace_ms));
                }
                let b = task_snap(pid, t);
                return match (a, b) {
                    (Some(a), Some(b)) if a.state == 'S' && b.state == 'S' && a.cpu == b.cpu && a.syscall == b.syscall && a.syscall >= 0 => {
                        Watch::Stuck(format!(
                            "{}: thread {} asleep in syscall {}({}) with no CPU use, {} ms after nothing could wake it",
                            name,
                            t,
                            syscall_name(a.syscall),
                            a.syscall,
                            (now_ns() - s) / 1_000_000
                        ))
                    },
                    (a, b) => Watch::Unknown(format!("{}: not returned, task state {:?} -> {:?}", name, a, b)),
                };
            }
        }
        if now - t0 > hard_cap_ms * 1_000_000 && idle_since.is_none() {
            return Watch::Unknown(format!("{}: watchdog ({} ms) fired before the scenario settled", name, hard_cap_ms));
        }
    }
}

// ---------------------------------------------------------------- misc

/// Exit "inconclusive" (code 3) on resource exhaustion instead of blaming the library.
pub fn must<T, E: std::fmt::Display>(what: &str, r: Result<T, E>) -> T {
    match r {
        Ok(v) => v,
        Err(e) => {
            let s = e.to_string();
            if s.contains("Too many open files") || s.contains("Cannot allocate memory") || s.contains("No space left") {
                eprintln!("INCONCLUSIVE: resource exhaustion in {}: {}", what, s);
                std::process::exit(3);
            }
            panic!("harness: {} failed: {}", what, s);
        },
    }
}

pub fn variant() -> &'static str {
    if cfg!(feature = "inproc") {
        "inproc"
    } else if cfg!(feature = "memfd") {
        "memfd"
    } else {
        "os"
    }
}

pub fn is_os() -> bool {
    !cfg!(feature = "inproc")
}

pub fn pin_to_cpus(start: usize, n: usize) {
    if n == 0 {
        return;
    }
    let ncpu = unsafe { libc::sysconf(libc::_SC_NPROCESSORS_ONLN) }.max(1) as usize;
    unsafe {
        let mut set: libc::cpu_set_t = std::mem::zeroed();
        for i in 0..n {
            libc::CPU_SET((start + i) % ncpu, &mut set);
        }
        libc::sched_setaffinity(0, std::mem::size_of::<libc::cpu_set_t>(), &set);
    }
}

pub fn self_exe() -> String {
    std::env::current_exe().unwrap().to_string_lossy().into_owned()
}

/// True when every other thread of this process is asleep and consumed no CPU for a second:
/// nothing inside the process can make progress any more (used to turn "did not happen within the
/// grace period" into a logical verdict, DESIGN 3.5).
pub fn process_quiescent() -> Option<bool> {
    let pid = std::process::id() as i32;
    let me = gettid();
    let snap = || -> Option<Vec<(i32, TaskSnap)>> {
        let mut v = Vec::new();
        for e in fs::read_dir("/proc/self/task").ok()? {
            let tid: i32 = e.ok()?.file_name().to_str()?.parse().ok()?;
            if tid != me {
                if let Some(s) = task_snap(pid, tid) {
                    v.push((tid, s));
                }
            }
        }
        Some(v)
    };
    let a = snap()?;
    std::thread::sleep(Duration::from_millis(1000));
    let b = snap()?;
    if a.len() != b.len() {
        return Some(false);
    }
    for ((t1, s1), (t2, s2)) in a.iter().zip(b.iter()) {
        if t1 != t2 || s1.state != 'S' || s2.state != 'S' || s1.cpu != s2.cpu {
            return Some(false);
        }
    }
    Some(true)
}

/// Wait until `cond` holds. After `grace_ms` without it, decide: Ok(true) = happened,
/// Ok(false) = provably never will (process quiescent), Err = undecided.
pub fn await_cond(grace_ms: u64, cond: &dyn Fn() -> bool) -> Result<bool, String> {
    let t0 = now_ns();
    loop {
        if cond() {
            return Ok(true);
        }
        if now_ns() - t0 > grace_ms * 1_000_000 {
            return match process_quiescent() {
                Some(true) => {
                    if cond() {
                        Ok(true)
                    } else {
                        Ok(false)
                    }
                },
                _ => {
                    if cond() {
                        Ok(true)
                    } else {
                        Err("condition not reached, process not quiescent".into())
                    }
                },
            };
        }
        std::thread::sleep(Duration::from_micros(300));
    }
}


// ---------------------------------------------------------------- per-case watchdog (rule 3.5 for whole cases)

static CURRENT_OP: Mutex<Option<(String, u64, u64, i32)>> = Mutex::new(None);

pub struct OpGuard;
impl Drop for OpGuard {
    fn drop(&mut self) {
        *CURRENT_OP.lock().unwrap_or_else(|e| e.into_inner()) = None;
    }
}

/// Declare that the calling thread now runs `case` of a family whose cases take milliseconds. If it
/// is still inside 20 s later while this process and all its descendants are asleep without using
/// CPU, nothing can ever finish it: the batch reports `<FAMILY>:case-blocks-forever` and ends.
pub fn op_begin(what: &str, case: u64) -> OpGuard {
    *CURRENT_OP.lock().unwrap_or_else(|e| e.into_inner()) = Some((what.to_string(), case, now_ns(), gettid()));
    OpGuard
}

fn descendants(pid: i32, out: &mut Vec<i32>) {
    if let Ok(rd) = fs::read_dir(format!("/proc/{}/task", pid)) {
        for e in rd.flatten() {
            if let Ok(s) = fs::read_to_string(e.path().join("children")) {
                for c in s.split_whitespace().filter_map(|x| x.parse::<i32>().ok()) {
                    if !out.contains(&c) {
                        out.push(c);
                        descendants(c, out);
                    }
                }
            }
        }
    }
}

fn tree_snapshot(me: i32) -> Vec<(i32, i32, char, u64)> {
    let mut pids = vec![std::process::id() as i32];
    descendants(std::process::id() as i32, &mut pids);
    let mut v = Vec::new();
    for p in pids {
        if let Ok(rd) = fs::read_dir(format!("/proc/{}/task", p)) {
            for e in rd.flatten() {
                if let Some(t) = e.file_name().to_str().and_then(|s| s.parse::<i32>().ok()) {
                    if t == me {
                        continue;
                    }
                    // the foreign-descriptor churner of C11 is busy by design and can wake nobody
                    if fs::read_to_string(format!("/proc/{}/task/{}/comm", p, t)).map(|c| c.trim() == "pest").unwrap_or(false) {
                        continue;
                    }
                    if let Some(s) = task_snap(p, t) {
                        v.push((p, t, s.state, s.cpu));
                    }
                }
            }
        }
    }
    v
}

pub fn start_case_watchdog(rep: Arc<Report>, family: String, replay_base: Value) {
    std::thread::Builder::new()
        .name("case-watchdog".into())
        .spawn(move || loop {
            std::thread::sleep(Duration::from_millis(500));
            let cur = CURRENT_OP.lock().unwrap_or_else(|e| e.into_inner()).clone();
            let (what, case, since, tid) = match cur {
                Some(c) => c,
                None => continue,
            };
            let age_ms = (now_ns() - since) / 1_000_000;
            if age_ms < 20_000 {
                continue;
            }
            let me = gettid();
            let a = tree_snapshot(me);
            std::thread::sleep(Duration::from_millis(1000));
            let b = tree_snapshot(me);
            // still the same case?
            let again = CURRENT_OP.lock().unwrap_or_else(|e| e.into_inner()).clone();
            if again.as_ref().map(|c| (c.1, c.2)) != Some((case, since)) {
                continue;
            }
            let idle = a.len() == b.len() && a.iter().zip(b.iter()).all(|(x, y)| x.0 == y.0 && x.1 == y.1 && (x.2 == 'S' || x.2 == 'Z') && x.2 == y.2 && x.3 == y.3);
            let mut replay = replay_base.clone();
            replay["case"] = json!(case);
            if idle {
                let sc = task_snap(std::process::id() as i32, tid).map(|s| syscall_name(s.syscall)).unwrap_or("?");
                rep.violation(
                    &format!("{}:case-blocks-forever:{}", family.to_uppercase(), what),
                    json!({"case": case, "what": what, "blocked_for_ms": age_ms, "thread_in_syscall": sc,
                        "why": "20 s inside a case that takes milliseconds; every thread of this process and of its children asleep, no CPU used: nothing can finish it"}),
                    replay,
                );
                rep.finish();
                std::process::exit(0);
            } else if age_ms > if cfg!(miri) { 3_000_000 } else { 300_000 } {
                rep.inconclusive(&format!("case {} ({}) still running after {} s with the process tree busy", case, what, age_ms / 1000));
                rep.finish();
                std::process::exit(0);
            }
        })
        .expect("spawn watchdog");
}
