//! C06 — a receiver set reports every event of every member exactly once.
//!
//! Online oracle in the selecting thread: per-member sequence numbers, member tags carried in
//! the payload, closed-once flags, live-id uniqueness, premature-closure detection through
//! "drops begun" counters, and quiesce rounds (producers burst, are joined, and the selector must
//! drain exactly the burst) so that a lost edge cannot be masked by later traffic.

use crate::c01::{sizes, Sizes};
use crate::gen::Blob;
use crate::util::*;
use crate::Ctx;
use ipc_channel::ipc::{self, IpcReceiver, IpcReceiverSet, IpcSelectionResult, IpcSender};
use serde_json::{json, Value};
use std::collections::{BTreeMap, BTreeSet};
use std::sync::atomic::{AtomicBool, AtomicI32, AtomicUsize, Ordering};
use std::sync::mpsc;
use std::sync::{Arc, Mutex};
use std::time::Duration;

type M = (u32, u32, Blob);

fn mid(case: u64, tag: u32, seq: u32) -> u64 {
    (case << 36) ^ ((tag as u64) << 20) ^ seq as u64 ^ 0xc060_0000_0000_0000
}

struct NewMember {
    rx: IpcReceiver<M>,
    tag: u32,
    drops_begun: Arc<AtomicUsize>,
    handles_created: Arc<AtomicUsize>,
    late: bool, // add only after the first select of the round returned
}

struct RoundSpec {
    round: usize,
    add: Vec<NewMember>,
    /// per member tag: messages expected in this round
    expect_msgs: BTreeMap<u32, u32>,
    expect_closed: BTreeSet<u32>,
    eintr: i32,
}

struct RoundResult {
    problems: Vec<(String, Value)>,
    selects: u64,
    max_batch: usize,
    events: u64,
    batch_sig: u64,
}

struct MState {
    tag: u32,
    next_seq: u32,
    closed: bool,
    drops_begun: Arc<AtomicUsize>,
    handles_created: Arc<AtomicUsize>,
}

extern "C" fn on_sigusr1(_: libc::c_int) {}

fn install_sigusr1() {
    unsafe {
        let mut sa: libc::sigaction = std::mem::zeroed();
        sa.sa_sigaction = on_sigusr1 as usize;
        sa.sa_flags = 0; // no SA_RESTART: blocking calls return EINTR
        libc::sigemptyset(&mut sa.sa_mask);
        libc::sigaction(libc::SIGUSR1, &sa, std::ptr::null_mut());
    }
}

fn selector_loop(case: u64, specs: mpsc::Receiver<RoundSpec>, done: mpsc::Sender<RoundResult>, tid_out: Arc<AtomicI32>) {
    tid_out.store(gettid(), Ordering::SeqCst);
    let mut set = IpcReceiverSet::new().expect("set");
    let mut by_id: BTreeMap<u64, MState> = BTreeMap::new();
    let mut id_of_tag: BTreeMap<u32, u64> = BTreeMap::new();
    while let Ok(spec) = specs.recv() {
        let mut problems: Vec<(String, Value)> = Vec::new();
        let mut pending_add: Vec<NewMember> = Vec::new();
        let mut add_now = |set: &mut IpcReceiverSet, by_id: &mut BTreeMap<u64, MState>, id_of_tag: &mut BTreeMap<u32, u64>, nm: NewMember, problems: &mut Vec<(String, Value)>| {
            match set.add(nm.rx) {
                Ok(id) => {
                    if by_id.get(&id).map(|m| !m.closed).unwrap_or(false) {
                        problems.push(("duplicate-live-id".into(), json!({"id": id, "tag": nm.tag})));
                    }
                    by_id.insert(id, MState { tag: nm.tag, next_seq: 0, closed: false, drops_begun: nm.drops_begun, handles_created: nm.handles_created });
                    id_of_tag.insert(nm.tag, id);
                },
                Err(e) => problems.push(("add-failed".into(), json!({"error": e.to_string()}))),
            }
        };
        for nm in spec.add {
            if nm.late {
                pending_add.push(nm);
            } else {
                add_now(&mut set, &mut by_id, &mut id_of_tag, nm, &mut problems);
            }
        }
        let mut need_msgs: BTreeMap<u32, u32> = spec.expect_msgs.clone();
        need_msgs.retain(|_, v| *v > 0);
        let mut need_closed: BTreeSet<u32> = spec.expect_closed.clone();
        let (mut selects, mut max_batch, mut events) = (0u64, 0usize, 0u64);
        let mut batch_sizes: Vec<usize> = Vec::new();
        if spec.eintr > 0 {
            if let Some(m) = mon() {
                m.eintr_epoll(spec.eintr);
            }
        }
        // members that are added late and are the only ones with traffic must be added up front
        let others_pending = need_msgs.keys().chain(need_closed.iter()).any(|t| id_of_tag.contains_key(t));
        if !others_pending {
            for nm in pending_add.drain(..) {
                add_now(&mut set, &mut by_id, &mut id_of_tag, nm, &mut problems);
            }
        }
        while !(need_msgs.is_empty() && need_closed.is_empty()) {
            // only select while an event of a member that is *in the set* is still owed
            let owed_in_set = need_msgs.keys().chain(need_closed.iter()).any(|t| id_of_tag.contains_key(t));
            if !owed_in_set {
                if pending_add.is_empty() {
                    problems.push(("harness-owed-events-without-member".into(), json!({"msgs": need_msgs, "closed": need_closed})));
                    break;
                }
                for nm in pending_add.drain(..) {
                    add_now(&mut set, &mut by_id, &mut id_of_tag, nm, &mut problems);
                }
                continue;
            }
            let evs = match set.select() {
                Ok(e) => e,
                Err(e) => {
                    problems.push(("select-error".into(), json!({"error": e.to_string()})));
                    break;
                },
            };
            selects += 1;
            max_batch = max_batch.max(evs.len());
            batch_sizes.push(evs.len());
            if evs.is_empty() {
                problems.push(("select-returned-nothing".into(), json!({})));
            }
            for ev in evs {
                events += 1;
                match ev {
                    IpcSelectionResult::MessageReceived(id, om) => {
                        let st = match by_id.get_mut(&id) {
                            Some(s) => s,
                            None => {
                                problems.push(("unknown-id".into(), json!({"id": id})));
                                continue;
                            },
                        };
                        if st.closed {
                            problems.push(("message-after-closed".into(), json!({"id": id, "tag": st.tag})));
                        }
                        let (tag, seq, blob): M = match om.to() {
                            Ok(m) => m,
                            Err(e) => {
                                problems.push(("decode-error".into(), json!({"id": id, "error": e.to_string()})));
                                continue;
                            },
                        };
                        if tag != st.tag {
                            problems.push(("wrong-member-tag".into(), json!({"id": id, "member_tag": st.tag, "payload_tag": tag, "seq": seq})));
                            continue;
                        }
                        if seq != st.next_seq {
                            let kind = if seq < st.next_seq { "duplicate-or-reordered" } else { "gap-or-reordered" };
                            problems.push((kind.into(), json!({"tag": tag, "expected_seq": st.next_seq, "got_seq": seq})));
                        }
                        st.next_seq = seq + 1;
                        if let Some(d) = body_diff(mid(case, tag, seq), blob.0.len(), &blob.0) {
                            problems.push(("payload-differs".into(), json!({"tag": tag, "seq": seq, "diff": d})));
                        }
                        match need_msgs.get_mut(&tag) {
                            Some(n) => {
                                *n -= 1;
                                if *n == 0 {
                                    need_msgs.remove(&tag);
                                }
                            },
                            None => problems.push(("unexpected-extra-message".into(), json!({"tag": tag, "seq": seq}))),
                        }
                    },
                    IpcSelectionResult::ChannelClosed(id) => {
                        let st = match by_id.get_mut(&id) {
                            Some(s) => s,
                            None => {
                                problems.push(("closed-unknown-id".into(), json!({"id": id})));
                                continue;
                            },
                        };
                        if st.closed {
                            problems.push(("closed-twice".into(), json!({"id": id, "tag": st.tag})));
                        }
                        st.closed = true;
                        let (b, c) = (st.drops_begun.load(Ordering::SeqCst), st.handles_created.load(Ordering::SeqCst));
                        if b < c {
                            problems.push(("closed-while-sender-alive".into(), json!({"tag": st.tag, "drops_begun": b, "handles": c})));
                        }
                        if need_msgs.contains_key(&st.tag) {
                            problems.push(("closed-before-last-message".into(), json!({"tag": st.tag, "missing": need_msgs[&st.tag]})));
                            need_msgs.remove(&st.tag);
                        }
                        if !need_closed.remove(&st.tag) {
                            problems.push(("unexpected-closed".into(), json!({"tag": st.tag})));
                        }
                        let tag = st.tag;
                        id_of_tag.remove(&tag);
                    },
                }
            }
            if !pending_add.is_empty() {
                for nm in pending_add.drain(..) {
                    add_now(&mut set, &mut by_id, &mut id_of_tag, nm, &mut problems);
                }
            }
        }
        if let Some(m) = mon() {
            m.eintr_epoll(0);
        }
        let _ = spec.round;
        if done.send(RoundResult { problems, selects, max_batch, events, batch_sig: hash_of(&batch_sizes) }).is_err() {
            break;
        }
    }
    drop(set);
}

struct Member {
    tag: u32,
    primary: Option<IpcSender<M>>,
    sent: u32,
    drops_begun: Arc<AtomicUsize>,
    handles_created: Arc<AtomicUsize>,
    in_set: bool,
    pending_rx: Option<IpcReceiver<M>>,
    queued_before_add: u32,
}

fn gen_lens(r: &mut Rng, sz: &Sizes, n: usize, quiesce: bool, allow_multi: bool) -> Vec<usize> {
    let f1 = sz.f1.saturating_sub(16);
    let mut multi_left = if quiesce { 1 } else { 100 };
    (0..n)
        .map(|_| {
            if allow_multi && multi_left > 0 && r.chance(200) {
                multi_left -= 1;
                f1 + r.range(1, 4 * sz.f2 as u64) as usize
            } else if r.chance(100) {
                0
            } else {
                r.below(1500) as usize
            }
        })
        .collect()
}

pub fn run_case(ctx: &Ctx, sz: &Sizes, case: u64) {
    let rep = ctx.rep.clone();
    let mut r = Rng::derive(ctx.seed, 0xc06, case);
    let max_members = ctx.opt_u64("max_members", if ctx.thorough { 64 } else { 24 });
    let nmembers_target = match r.below(4) {
        0 => r.range(1, 3),
        1 => r.range(11, max_members.max(12)),
        _ => r.range(2, max_members),
    } as usize;
    let rounds = r.range(2, 5) as usize;
    let allow_multi = is_os() && sz.sndbuf < 100_000;
    let real_signals = is_os() && r.chance(250);
    let deep = r.chance(300);
    let use_multi = allow_multi && !real_signals && r.chance(600);

    let (spec_tx, spec_rx) = mpsc::channel::<RoundSpec>();
    let (done_tx, done_rx) = mpsc::channel::<RoundResult>();
    let waiting = Arc::new(AtomicBool::new(false));
    let sel_tid = Arc::new(AtomicI32::new(0));
    let results: Arc<Mutex<Vec<(usize, bool, RoundResult)>>> = Arc::new(Mutex::new(Vec::new()));
    let summary: Arc<Mutex<Value>> = Arc::new(Mutex::new(json!({})));

    // ---- driver thread: runs the rounds
    let driver = {
        let (waiting, results, summary, sel_tid) = (waiting.clone(), results.clone(), summary.clone(), sel_tid.clone());
        let sz = *sz;
        let mut r = r.clone();
        std::thread::spawn(move || {
            let mut members: Vec<Member> = Vec::new();
            let mut next_tag = 0u32;
            let mut modes = Vec::new();
            for round in 0..rounds {
                // a deep burst: far more tiny messages on one member than one wake-up of any
                // reasonable "fairness bound" would read, then silence on that member
                let deep_round = deep && round == 0;
                let quiesce = deep_round || r.chance(500);
                modes.push(if quiesce { "quiesce" } else { "concurrent" });
                // new members this round
                let want_new = if round == 0 { nmembers_target.div_ceil(2).max(1) } else { (nmembers_target / (2 * (rounds - 1)).max(1)).min(nmembers_target.saturating_sub(members.len())) };
                let mut add: Vec<NewMember> = Vec::new();
                let mut expect_msgs: BTreeMap<u32, u32> = BTreeMap::new();
                let mut expect_closed: BTreeSet<u32> = BTreeSet::new();
                for _ in 0..want_new {
                    let (tx, rx) = must("channel", ipc::channel::<M>());
                    let tag = next_tag;
                    next_tag += 1;
                    let mut m = Member {
                        tag,
                        primary: Some(tx),
                        sent: 0,
                        drops_begun: Arc::new(AtomicUsize::new(0)),
                        handles_created: Arc::new(AtomicUsize::new(1)),
                        in_set: false,
                        pending_rx: Some(rx),
                        queued_before_add: 0,
                    };
                    // traffic (and possibly closure) already queued when the member is added
                    if r.chance(400) {
                        let k = r.range(1, 6) as u32;
                        for _ in 0..k {
                            let len = r.below(800) as usize;
                            let _ = m.primary.as_ref().unwrap().send((tag, m.sent, Blob(body(mid(case, tag, m.sent), len))));
                            m.sent += 1;
                        }
                        m.queued_before_add = k;
                        if r.chance(300) {
                            m.drops_begun.fetch_add(1, Ordering::SeqCst);
                            m.primary = None; // closed before it is added
                        }
                    }
                    members.push(m);
                }
                // plan traffic for live members
                struct Job {
                    tag: u32,
                    tx: IpcSender<M>,
                    from_seq: u32,
                    lens: Vec<usize>,
                    counter: Arc<AtomicUsize>,
                }
                let mut jobs: Vec<Job> = Vec::new();
                let mut deep_given = false;
                for m in members.iter_mut() {
                    let newly = m.pending_rx.is_some();
                    let mut owed = if newly { m.queued_before_add } else { 0 };
                    if let Some(p) = m.primary.as_ref() {
                        let deep_here = deep_round && !deep_given;
                        if deep_here || r.chance(750) {
                            let k = if deep_here { r.range(70, 220) } else { r.range(1, if quiesce { 10 } else { 25 }) } as usize;
                            let lens = if deep_here { (0..k).map(|_| r.below(9) as usize).collect() } else { gen_lens(&mut r, &sz, k, quiesce, use_multi) };
                            deep_given = deep_given || deep_here;
                            let close = r.chance(200);
                            let tx = if close {
                                m.primary.take().unwrap()
                            } else {
                                m.handles_created.fetch_add(1, Ordering::SeqCst);
                                p.clone()
                            };
                            jobs.push(Job { tag: m.tag, tx, from_seq: m.sent, lens: lens.clone(), counter: m.drops_begun.clone() });
                            m.sent += k as u32;
                            owed += k as u32;
                            if close {
                                expect_closed.insert(m.tag);
                            }
                        } else if r.chance(100) {
                            // close without traffic
                            let tx = m.primary.take().unwrap();
                            jobs.push(Job { tag: m.tag, tx, from_seq: m.sent, lens: vec![], counter: m.drops_begun.clone() });
                            expect_closed.insert(m.tag);
                        }
                    } else if newly {
                        expect_closed.insert(m.tag); // closed before add
                    }
                    if owed > 0 {
                        expect_msgs.insert(m.tag, owed);
                    }
                    if newly {
                        add.push(NewMember {
                            rx: m.pending_rx.take().unwrap(),
                            tag: m.tag,
                            drops_begun: m.drops_begun.clone(),
                            handles_created: m.handles_created.clone(),
                            late: !quiesce && r.chance(400),
                        });
                        m.in_set = true;
                    }
                }
                // distribute jobs over producer threads
                let nthreads = r.range(1, 6) as usize;
                let mut buckets: Vec<Vec<Job>> = (0..nthreads).map(|_| Vec::new()).collect();
                for j in jobs {
                    let k = r.below(nthreads as u64) as usize;
                    buckets[k].push(j);
                }
                let slow = real_signals;
                let run_producers = move |buckets: Vec<Vec<Job>>| -> Vec<std::thread::JoinHandle<Vec<String>>> {
                    buckets
                        .into_iter()
                        .map(|b| {
                            std::thread::spawn(move || {
                                let mut errs = Vec::new();
                                // interleave members: round-robin over the jobs of this thread
                                let mut cursors: Vec<usize> = vec![0; b.len()];
                                let mut live = b.len();
                                while live > 0 {
                                    live = 0;
                                    for (j, job) in b.iter().enumerate() {
                                        if cursors[j] < job.lens.len() {
                                            let seq = job.from_seq + cursors[j] as u32;
                                            let len = job.lens[cursors[j]];
                                            if let Err(e) = job.tx.send((job.tag, seq, Blob(body(mid(case, job.tag, seq), len)))) {
                                                errs.push(format!("send tag {} seq {}: {}", job.tag, seq, e));
                                            }
                                            cursors[j] += 1;
                                            live += 1;
                                            if slow {
                                                std::thread::sleep(Duration::from_micros(400));
                                            }
                                        }
                                    }
                                }
                                for job in b {
                                    job.counter.fetch_add(1, Ordering::SeqCst);
                                    drop(job.tx);
                                }
                                errs
                            })
                        })
                        .collect()
                };
                let eintr = if is_os() && r.chance(400) { r.range(1, 4) as i32 } else { 0 };
                let spec = RoundSpec { round, add, expect_msgs, expect_closed, eintr };
                let mut send_errs = Vec::new();
                let stop_sig = Arc::new(AtomicBool::new(false));
                let sig_thread = if real_signals {
                    let (stop, sel_tid) = (stop_sig.clone(), sel_tid.clone());
                    Some(std::thread::spawn(move || {
                        let pid = std::process::id() as i32;
                        let mut sent = 0u64;
                        while !stop.load(Ordering::SeqCst) {
                            let t = sel_tid.load(Ordering::SeqCst);
                            if t != 0 {
                                if let Some(s) = task_snap(pid, t) {
                                    if s.state == 'S' && (s.syscall == 232 || s.syscall == 281) {
                                        unsafe { libc::syscall(libc::SYS_tgkill, pid, t, libc::SIGUSR1) };
                                        sent += 1;
                                    }
                                }
                            }
                            std::thread::sleep(Duration::from_micros(100));
                        }
                        sent
                    }))
                } else {
                    None
                };
                if quiesce {
                    for h in run_producers(buckets) {
                        send_errs.extend(h.join().unwrap_or_default());
                    }
                    let _ = spec_tx.send(spec);
                } else {
                    let _ = spec_tx.send(spec);
                    for h in run_producers(buckets) {
                        send_errs.extend(h.join().unwrap_or_default());
                    }
                }
                waiting.store(true, Ordering::SeqCst);
                let res = done_rx.recv();
                waiting.store(false, Ordering::SeqCst);
                stop_sig.store(true, Ordering::SeqCst);
                let sigs = sig_thread.map(|t| t.join().unwrap_or(0)).unwrap_or(0);
                match res {
                    Ok(mut rr) => {
                        for e in send_errs {
                            rr.problems.push(("send-failed".into(), json!({"error": e})));
                        }
                        rr.events += 0;
                        let mut s = summary.lock().unwrap();
                        s["real_signals_sent"] = json!(s["real_signals_sent"].as_u64().unwrap_or(0) + sigs);
                        results.lock().unwrap().push((round, quiesce, rr));
                    },
                    Err(_) => break,
                }
            }
            // final: close everything that is still open and expect the closures
            let mut expect_closed = BTreeSet::new();
            let mut left = Vec::new();
            for m in members.iter_mut() {
                if let Some(p) = m.primary.take() {
                    m.drops_begun.fetch_add(1, Ordering::SeqCst);
                    left.push(p);
                    expect_closed.insert(m.tag);
                }
            }
            drop(left);
            if !expect_closed.is_empty() {
                let _ = spec_tx.send(RoundSpec { round: rounds, add: vec![], expect_msgs: BTreeMap::new(), expect_closed, eintr: 0 });
                waiting.store(true, Ordering::SeqCst);
                if let Ok(rr) = done_rx.recv() {
                    results.lock().unwrap().push((rounds, true, rr));
                }
                waiting.store(false, Ordering::SeqCst);
            }
            {
                let mut s = summary.lock().unwrap();
                s["members"] = json!(members.len());
                s["modes"] = json!(modes);
            }
            drop(spec_tx);
        })
    };

    if real_signals {
        install_sigusr1();
    }
    let w2 = waiting.clone();
    let res = watch("c06-selector", 20_000, &move || w2.load(Ordering::SeqCst), move || selector_loop(case, spec_rx, done_tx, sel_tid));
    let base = json!({"case": case, "variant": variant(), "sndbuf": sz.sndbuf, "target_members": nmembers_target, "rounds": rounds,
        "real_signals": real_signals, "multi_packet": use_multi, "deep_burst": deep});
    if deep {
        rep.stat("deep_burst_scenarios", 1);
    }
    match res {
        Watch::Done(()) => {
            let _ = driver.join();
        },
        Watch::Stuck(s) => {
            rep.violation("C06:select-stuck-with-events-pending", json!({"ctx": base, "why": s, "summary": *summary.lock().unwrap()}), ctx.replay(case));
            rep.case(&(case, 0u8), true);
            return; // driver thread stays parked; the process exits at the end of the batch
        },
        Watch::Unknown(s) => {
            rep.inconclusive(&format!("c06 case {}: {}", case, s));
            return;
        },
        Watch::Panicked(s) => {
            rep.violation("C06:panic", json!({"ctx": base, "panic": s}), ctx.replay(case));
            return;
        },
    }
    let results = std::mem::take(&mut *results.lock().unwrap());
    let mut seen = BTreeSet::new();
    let mut sig = Vec::new();
    for (round, quiesce, rr) in results {
        rep.stat("rounds", 1);
        rep.stat(if quiesce { "quiesce_rounds" } else { "concurrent_rounds" }, 1);
        rep.stat("select_calls", rr.selects as i64);
        rep.stat("events", rr.events as i64);
        rep.stat_max("events_in_one_select", rr.max_batch as i64);
        sig.push(rr.batch_sig);
        for (k, d) in rr.problems {
            if seen.insert(k.clone()) {
                rep.violation(&format!("C06:{}", k), json!({"ctx": base, "round": round, "quiesce": quiesce, "problem": d}), ctx.replay(case));
            }
        }
    }
    let s = summary.lock().unwrap().clone();
    rep.stat("members", s["members"].as_i64().unwrap_or(0));
    rep.stat_max("members_in_one_set", s["members"].as_i64().unwrap_or(0));
    rep.stat("real_signals_sent", s["real_signals_sent"].as_i64().unwrap_or(0));
    rep.case(&(sig, s["members"].as_i64().unwrap_or(0)), s["members"].as_i64().unwrap_or(0) >= 2);
    if case % 9 == 0 {
        rep.sample(json!({"ctx": base, "summary": s, "clean": seen.is_empty()}));
    }
}

pub fn run(ctx: &Ctx) {
    let sz = sizes();
    let n = ctx.opt_u64("cases", if ctx.thorough { 300 } else { 12 });
    for i in 0..n {
        let case = ctx.batch * 1_000_000 + i;
        if !ctx.want(case) {
            continue;
        }
        run_case(ctx, &sz, case);
        if ctx.rep.nviol.load(Ordering::Relaxed) >= 3 {
            break; // every further stuck case would cost another 20 s grace period
        }
    }
}
