//! C11 — no descriptor, mapping or file is leaked, closed twice or inherited.
//!
//! Model-generated operation sequences (prog.rs, including operations that must fail) run while
//! a "pest" thread churns foreign descriptors, so that a double close in the library lands on a
//! descriptor owned by somebody else and trips the interposer's ledger. At quiescent points
//! (every handle dropped) the descriptor table, shared mappings, TMPDIR and /dev/shm must equal
//! the post-warm-up baseline. At seeded points inside a program every library descriptor must
//! carry FD_CLOEXEC and an unrelated exec'd child must see none of them. A second phase races
//! the spawning of unrelated children against threads that create and receive descriptors all the
//! time: a descriptor that is inheritable even for an instant after its creation shows up in the
//! listing of a child that was forked in that instant.

use crate::prog::{Bias, Interp};
use crate::util::*;
use crate::Ctx;
use ipc_channel::ipc::{self, IpcSharedMemory};
use serde_json::{json, Value};
use std::collections::{BTreeMap, BTreeSet};
use std::sync::atomic::{AtomicBool, AtomicUsize, Ordering};
use std::sync::Arc;

fn tmp_entries() -> BTreeSet<String> {
    let mut s = BTreeSet::new();
    if let Ok(rd) = std::fs::read_dir(std::env::temp_dir()) {
        for e in rd.flatten() {
            s.insert(e.file_name().to_string_lossy().into_owned());
        }
    }
    s
}

fn shm_entries() -> BTreeSet<String> {
    let pid = format!(".{}.", std::process::id());
    let mut s = BTreeSet::new();
    if let Ok(rd) = std::fs::read_dir("/dev/shm") {
        for e in rd.flatten() {
            let n = e.file_name().to_string_lossy().into_owned();
            if n.contains("ipc-channel-shared-memory") && n.contains(&pid) {
                s.insert(n);
            }
        }
    }
    s
}

/// Case number under which the spawn-race phase is replayed.
const RACE_CASE: u64 = 999_999_999;

struct Pest {
    pause: Arc<AtomicBool>,
    idle: Arc<AtomicBool>,
    stop: Arc<AtomicBool>,
    churn: Arc<AtomicUsize>,
    h: Option<std::thread::JoinHandle<()>>,
}

impl Pest {
    fn start() -> Pest {
        let (pause, idle, stop, churn) = (Arc::new(AtomicBool::new(false)), Arc::new(AtomicBool::new(false)), Arc::new(AtomicBool::new(false)), Arc::new(AtomicUsize::new(0)));
        let (p, i, s, c) = (pause.clone(), idle.clone(), stop.clone(), churn.clone());
        let h = std::thread::Builder::new().name("pest".into()).spawn(move || {
            if let Some(m) = mon() {
                m.set_foreign(true);
            }
            let mut held: Vec<i32> = Vec::new();
            let mut k = 0u64;
            while !s.load(Ordering::SeqCst) {
                if p.load(Ordering::SeqCst) {
                    for fd in held.drain(..) {
                        unsafe { libc::close(fd) };
                    }
                    i.store(true, Ordering::SeqCst);
                    std::thread::sleep(std::time::Duration::from_micros(100));
                    continue;
                }
                i.store(false, Ordering::SeqCst);
                // grab the lowest free numbers again and again: those are what a stale close would hit
                k += 1;
                let fd = unsafe { libc::socket(libc::AF_UNIX, libc::SOCK_DGRAM | libc::SOCK_CLOEXEC, 0) };
                if fd >= 0 {
                    held.push(fd);
                    c.fetch_add(1, Ordering::Relaxed);
                }
                if held.len() > 6 || k % 3 == 0 {
                    if !held.is_empty() {
                        let fd = held.remove(0);
                        unsafe { libc::close(fd) };
                    }
                }
                if k % 64 == 0 {
                    std::thread::yield_now();
                }
            }
            for fd in held.drain(..) {
                unsafe { libc::close(fd) };
            }
        }).expect("spawn pest");
        Pest { pause, idle, stop, churn, h: Some(h) }
    }
    fn quiesce(&self) {
        self.idle.store(false, Ordering::SeqCst);
        self.pause.store(true, Ordering::SeqCst);
        while !self.idle.load(Ordering::SeqCst) {
            std::thread::yield_now();
        }
    }
    fn resume(&self) {
        self.pause.store(false, Ordering::SeqCst);
    }
    fn finish(mut self) -> usize {
        self.stop.store(true, Ordering::SeqCst);
        if let Some(h) = self.h.take() {
            let _ = h.join();
        }
        self.churn.load(Ordering::Relaxed)
    }
}

fn thread_count() -> usize {
    std::fs::read_dir("/proc/self/task").map(|d| d.count()).unwrap_or(0)
}

fn classify(target: &str) -> &'static str {
    if target.starts_with("socket:") {
        "socket"
    } else if target.contains("ipc-channel-shared-memory") || target.contains("memfd:") {
        "shared-memory"
    } else if target.contains("eventpoll") {
        "epoll"
    } else {
        "other"
    }
}

/// Every descriptor that is not part of the baseline must be close-on-exec; an unrelated child
/// that is really exec'd must not see any of them.
fn inheritance_probe(base: &BTreeMap<i32, String>, problems: &mut Vec<(String, Value)>, spawn: bool) -> usize {
    let now = fd_table();
    let mut checked = 0;
    let mut inheritable: Vec<(i32, String)> = Vec::new();
    for (fd, t) in &now {
        if base.contains_key(fd) || *fd >= 1000 {
            continue;
        }
        match fd_cloexec(*fd) {
            Some(true) => checked += 1,
            Some(false) => {
                checked += 1;
                inheritable.push((*fd, t.clone()));
            },
            None => {},
        }
    }
    for (fd, t) in &inheritable {
        problems.push((format!("not-close-on-exec:{}", classify(t)), json!({"fd": fd, "target": t})));
    }
    if spawn {
        if let Ok(out) = std::process::Command::new(self_exe()).args(["role", "lsfd"]).env_remove("LD_PRELOAD").output() {
            let text = String::from_utf8_lossy(&out.stdout);
            for l in text.lines() {
                let mut it = l.splitn(2, ' ');
                let fd: i32 = it.next().and_then(|s| s.parse().ok()).unwrap_or(-1);
                let t = it.next().unwrap_or("");
                // the child legitimately has 0,1,2 (pipes made by Command) and whatever the baseline had without CLOEXEC
                if fd > 2 && !base.contains_key(&fd) {
                    problems.push((format!("inherited-by-unrelated-child:{}", classify(t)), json!({"fd": fd, "target": t})));
                }
            }
        }
    }
    checked
}

/// Spawn unrelated children while `workers` threads create channels, regions, servers and receive
/// descriptors in messages without pause. Each child lists what it inherited.
fn spawn_race(seed: u64, base: &BTreeMap<i32, String>, spawns: usize, workers: usize, problems: &mut Vec<(String, Value)>) -> (usize, usize) {
    use ipc_channel::ipc::{IpcOneShotServer, IpcReceiverSet, IpcSender};
    let stop = Arc::new(AtomicBool::new(false));
    let created = Arc::new(AtomicUsize::new(0));
    let mut hs = Vec::new();
    for w in 0..workers {
        let (stop, created) = (stop.clone(), created.clone());
        let h = std::thread::Builder::new().name(format!("creator{}", w)).spawn(move || {
            let mut r = Rng::derive(seed, 0xc11f, w as u64);
            while !stop.load(Ordering::SeqCst) {
                match r.below(7) {
                    0 | 1 => drop(ipc::channel::<u64>()),
                    2 => {
                        let g = IpcSharedMemory::from_bytes(&[7u8; 64]);
                        let g2 = g.clone();
                        drop((g, g2));
                    },
                    3 | 4 => {
                        // a sender travels in a message and is unpacked by one of the receive calls
                        if let (Ok((tx, rx)), Ok((t2, r2))) = (ipc::channel::<IpcSender<u64>>(), ipc::channel::<u64>()) {
                            let _ = tx.send(t2);
                            match r.below(4) {
                                0 => drop(rx.recv()),
                                1 => drop(rx.try_recv()),
                                2 => drop(rx.try_recv_timeout(std::time::Duration::from_millis(50))),
                                _ => {
                                    if let Ok(mut set) = IpcReceiverSet::new() {
                                        let _ = set.add(rx);
                                        drop(set.select());
                                    }
                                },
                            }
                            drop(r2);
                        }
                    },
                    5 => {
                        if let Ok((server, name)) = IpcOneShotServer::<u8>::new() {
                            if let Ok(tx) = IpcSender::<u8>::connect(name) {
                                let _ = tx.send(1);
                                drop(server.accept());
                            }
                        }
                    },
                    _ => {
                        // multi-packet message: the dedicated channel is created inside send
                        if let Ok((tx, rx)) = ipc::bytes_channel() {
                            std::thread::scope(|s| {
                                s.spawn(move || drop(rx.recv()));
                                let _ = tx.send(&vec![3u8; 300_000]);
                            });
                        }
                    },
                }
                created.fetch_add(1, Ordering::Relaxed);
            }
        });
        if let Ok(h) = h {
            hs.push(h);
        }
    }
    let mut children = 0;
    let mut seen = BTreeSet::new();
    for k in 0..spawns {
        if let Ok(out) = std::process::Command::new(self_exe()).args(["role", "lsfd"]).env_remove("LD_PRELOAD").output() {
            if !out.status.success() {
                continue;
            }
            children += 1;
            let text = String::from_utf8_lossy(&out.stdout);
            for l in text.lines() {
                let mut it = l.splitn(2, ' ');
                let fd: i32 = it.next().and_then(|s| s.parse().ok()).unwrap_or(-1);
                let t = it.next().unwrap_or("");
                if fd > 2 && fd < 1000 && !base.contains_key(&fd) && seen.insert(classify(t)) {
                    problems.push((format!("inherited-by-unrelated-child:{}", classify(t)),
                        json!({"fd": fd, "target": t, "phase": "child spawned while other threads create and receive descriptors", "spawn": k})));
                }
            }
        }
    }
    stop.store(true, Ordering::SeqCst);
    for h in hs {
        let _ = h.join();
    }
    (children, created.load(Ordering::Relaxed))
}

/// A router with a few routes is created, used and stopped (shutdown and/or proxy drop): once the
/// router thread has wound down, everything it held must be gone.
fn router_scenario(r: &mut Rng) -> usize {
    use ipc_channel::router::RouterProxy;
    let proxy = RouterProxy::new();
    let n = r.range(1, 5) as usize;
    let mut keep = Vec::new();
    let mut consumers = Vec::new();
    for i in 0..n {
        let (tx, rx) = must("channel", ipc::channel::<u64>());
        if r.chance(500) {
            proxy.add_route(rx.to_opaque(), Box::new(move |m| drop(m.to::<u64>())));
        } else {
            consumers.push(proxy.route_ipc_receiver_to_new_crossbeam_receiver(rx));
        }
        for k in 0..r.below(4) {
            let _ = tx.send(i as u64 * 10 + k);
        }
        if r.chance(500) {
            keep.push(tx); // still connected when the router stops
        }
    }
    match r.below(3) {
        0 => {
            proxy.shutdown();
            drop(proxy);
        },
        1 => drop(proxy),
        _ => {
            proxy.shutdown();
            proxy.shutdown();
            // offered after the stop: must be dropped, receiver included
            let (_tx, rx) = must("channel", ipc::channel::<u64>());
            proxy.add_route(rx.to_opaque(), Box::new(|_| {}));
            drop(proxy);
        },
    }
    drop(keep);
    drop(consumers);
    n
}

pub fn run(ctx: &Ctx) {
    let rep = &ctx.rep;
    let n = ctx.opt_u64("programs", if ctx.thorough { 1500 } else { 60 });
    let maxops = ctx.opt_u64("ops", 400) as usize;
    // warm-up: lazily initialised library state
    {
        let (tx, rx) = must("channel", ipc::channel::<u8>());
        tx.send(1).unwrap();
        let _ = rx.recv();
        let g = IpcSharedMemory::from_bytes(&[1, 2, 3]);
        drop(g);
    }
    let pest = Pest::start();
    pest.quiesce();
    let base_fds = fd_table();
    let base_threads = thread_count();
    let base_maps = shared_maps();
    let base_tmp = tmp_entries();
    let base_shm = shm_entries();
    pest.resume();
    if let Some(m) = mon() {
        m.alarm_reset();
    }
    for i in 0..n {
        let prog = ctx.batch * 1_000_000 + i;
        if !ctx.want(prog) {
            continue;
        }
        let mut r = Rng::derive(ctx.seed, 0xc11, prog);
        let ops = *r.pick(&[20usize, 60, 120, maxops]);
        let bias = Bias { sets: true, servers: true, regions: true, failing_ops: is_os(), failing_serialize: true, max_chans: 6, ops };
        let guard = op_begin("operation-sequence", prog);
        let mut it = Interp::new(ctx.seed, prog, bias);
        let mut problems: Vec<(String, Value)> = Vec::new();
        // run step by step so that inheritance can be probed in the middle
        let probe_at: Vec<usize> = (0..4).map(|_| r.below(ops as u64) as usize).collect();
        let spawn_probe = r.chance(150);
        let mut steps = 0;
        let mut diverged = None;
        let mut probed = 0;
        for s in 0..ops {
            match it.step() {
                Ok(true) => steps += 1,
                Ok(false) => break,
                Err(m) => {
                    diverged = Some(m);
                    break;
                },
            }
            if probe_at.contains(&s) && is_os() {
                pest.quiesce();
                probed += inheritance_probe(&base_fds, &mut problems, spawn_probe && s == probe_at[0]);
                pest.resume();
            }
        }
        let ops_hash = hash_of(&it.ops);
        let tail: Vec<String> = it.ops.iter().rev().take(6).cloned().collect();
        let nfail = it.ops.iter().filter(|o| o.contains("failure") || o.contains("missing")).count();
        rep.stat("multi_packet_sends_to_dropped_receivers", it.big_dead_sends as i64);
        // drop every handle the program obtained
        let Interp { world, model, .. } = it;
        drop(world);
        drop(model);
        drop(guard);
        let routes = if r.chance(400) { router_scenario(&mut r) } else { 0 };
        rep.stat("router_routes_created_and_stopped", routes as i64);
        // quiescent point (a stopped router thread releases its descriptors when it returns: wait for
        // that logically, never longer than until the whole process is idle)
        pest.quiesce();
        if routes > 0 {
            // the router thread may not even have started yet when its proxy is dropped: wait until
            // it has come and gone (thread count back at the baseline), then for its descriptors
            let want_threads = base_threads;
            let _ = await_cond(20_000, &move || thread_count() <= want_threads);
            let want = base_fds.len();
            let _ = await_cond(20_000, &move || fd_table().keys().filter(|k| **k < 1000).count() <= want);
        }
        let fds = fd_table();
        let extra: Vec<(i32, String)> = fds.iter().filter(|(k, _)| !base_fds.contains_key(k) && **k < 1000).map(|(k, v)| (*k, v.clone())).collect();
        let missing: Vec<i32> = base_fds.keys().filter(|k| !fds.contains_key(k)).cloned().collect();
        let maps = shared_maps();
        let tmp = tmp_entries();
        let shm = shm_entries();
        pest.resume();
        let mut kinds = BTreeSet::new();
        for (_, t) in &extra {
            kinds.insert(classify(t));
        }
        for k in kinds {
            problems.push((format!("descriptor-leaked:{}", k), json!({"count": extra.len(), "examples": extra.iter().take(5).collect::<Vec<_>>(), "ops_tail": tail, "failing_ops": nfail})));
        }
        if !missing.is_empty() {
            problems.push(("baseline-descriptor-closed".into(), json!({"fds": missing})));
        }
        if maps.len() != base_maps.len() {
            problems.push(("shared-mapping-leaked".into(), json!({"count": maps.len() as i64 - base_maps.len() as i64, "examples": maps.iter().take(3).collect::<Vec<_>>()})));
        }
        let tleft: Vec<&String> = tmp.difference(&base_tmp).collect();
        if !tleft.is_empty() {
            problems.push(("temporary-file-left".into(), json!({"entries": tleft.iter().take(5).collect::<Vec<_>>()})));
        }
        let sleft: Vec<&String> = shm.difference(&base_shm).collect();
        if !sleft.is_empty() {
            problems.push(("shm-name-left".into(), json!({"entries": sleft.iter().take(5).collect::<Vec<_>>()})));
        }
        if let Some(m) = mon() {
            if m.alarm_count() > 0 {
                let text = m.alarm_text();
                let kind = text.split_whitespace().next().unwrap_or("alarm").to_string();
                problems.push((format!("ledger:{}", kind), json!({"alarms": text.lines().take(6).collect::<Vec<_>>(), "ops_tail": tail})));
                m.alarm_reset();
            }
        }
        rep.case(&ops_hash, steps > 3);
        rep.stat("programs", 1);
        rep.stat("operations", steps as i64);
        rep.stat("failing_operations", nfail as i64);
        rep.stat("cloexec_checked_descriptors", probed as i64);
        if spawn_probe {
            rep.stat("unrelated_children_spawned", 1);
        }
        if diverged.is_some() {
            rep.stat("programs_diverged_from_model", 1);
        }
        let base = json!({"program": prog, "variant": variant(), "release": !cfg!(debug_assertions), "ops": steps});
        let mut seen = BTreeSet::new();
        for (k, d) in problems {
            if seen.insert(k.clone()) {
                rep.violation(&format!("C11:{}", k), json!({"ctx": base, "problem": d, "diverged": diverged.as_ref().map(|m| format!("{:?}", m))}), ctx.replay(prog));
            }
        }
        if i % 20 == 0 {
            rep.sample(json!({"ctx": base, "ops_tail": tail, "fds_at_quiescence": fds.len(), "baseline_fds": base_fds.len(), "clean": seen.is_empty()}));
        }
        if rep.nviol.load(Ordering::Relaxed) >= 6 {
            break; // a leak shifts the baseline for every later program, a hang costs a grace period
        }
    }
    if is_os() && rep.nviol.load(Ordering::Relaxed) == 0 && ctx.want(RACE_CASE) {
        let spawns = ctx.opt_u64("race_spawns", if ctx.thorough { 1500 } else { 100 }) as usize;
        let mut problems: Vec<(String, Value)> = Vec::new();
        let guard = op_begin("spawn-race", RACE_CASE);
        let (children, created) = spawn_race(ctx.seed ^ ctx.batch, &base_fds, spawns, 4, &mut problems);
        drop(guard);
        rep.stat("race_children_spawned", children as i64);
        rep.stat("race_descriptor_creating_operations", created as i64);
        let base = json!({"phase": "spawn-race", "variant": variant(), "release": !cfg!(debug_assertions), "children": children, "creating_operations": created});
        for (k, d) in problems {
            rep.violation(&format!("C11:{}", k), json!({"ctx": base, "problem": d}), ctx.replay(RACE_CASE));
        }
        rep.sample(json!({"ctx": base}));
    }
    let churn = pest.finish();
    rep.stat("pest_descriptor_churn", churn as i64);
}
