//! C13 — transient buffer exhaustion during send is absorbed or reported, never damaging.
//!
//! Fault enumeration: ENOBUFS is injected by the interposer at every subset (bit pattern) of the
//! first 10 transmission attempts (sendmsg/send) of one send. Both ends live in one thread: packets
//! are made small with a reported SO_SNDBUF, so the real socket buffer holds the whole message.

use crate::c01::{sizes, Sizes};
use crate::gen::Blob;
use crate::util::*;
use crate::Ctx;
use ipc_channel::ipc::{self, IpcReceiver, IpcSender, IpcSharedMemory, TryRecvError};
use serde_json::{json, Value};

type M = (u32, Blob, Vec<IpcSender<u64>>, Vec<IpcSharedMemory>);

fn mid(shape: u64, pat: u64, seq: u32) -> u64 {
    (shape << 40) ^ (pat << 8) ^ seq as u64 ^ 0xc130_0000_0000_0000
}

const SHAPES: [&str; 5] = ["<=2000B", "one-packet>2000B", "2-packets", "3-packets", "6-packets"];

fn shape_len(sz: &Sizes, shape: usize) -> usize {
    match shape {
        0 => 1200,
        1 => (sz.f1 - 200).min(6000).max(2500),
        2 => sz.f1 + sz.f2 / 2,
        3 => sz.f1 + sz.f2 + sz.f2 / 2,
        _ => sz.f1 + 4 * sz.f2 + sz.f2 / 2,
    }
}

pub fn patterns(ctx: &Ctx, shape: usize, att: bool) -> (Vec<u64>, bool) {
    if ctx.thorough || ctx.opt_u64("all", 0) == 1 {
        return ((0..1024u64).collect(), true);
    }
    let mut v: Vec<u64> = vec![0];
    for i in 0..10 {
        v.push(1 << i);
        for j in i + 1..10 {
            v.push((1 << i) | (1 << j));
        }
    }
    let mut r = Rng::derive(ctx.seed, 0xc13, (shape * 2 + att as usize) as u64);
    for _ in 0..100 {
        v.push(r.below(1024));
    }
    v.sort();
    v.dedup();
    (v, false)
}

pub fn run_one(sz: &Sizes, shape: usize, att: bool, pat: u64, off: u32) -> (Vec<(String, Value)>, bool, i32, usize) {
    let m = need_mon();
    let shape_id = (shape * 2 + att as usize) as u64;
    let len = shape_len(sz, shape);
    let (tx, rx): (IpcSender<M>, IpcReceiver<M>) = must("channel", ipc::channel());
    let mut kept = Vec::new();
    let mut senders = Vec::new();
    let mut regions = Vec::new();
    if att {
        for i in 0..3 {
            let (t, r) = must("channel", ipc::channel::<u64>());
            senders.push(t);
            kept.push(r);
            regions.push(IpcSharedMemory::from_bytes(&body(mid(shape_id, pat, 50 + i), 3000 + i as usize)));
        }
    }
    let target: M = (0, Blob(body(mid(shape_id, pat, 0), len)), senders, regions);
    // the 10-bit pattern covers attempts off..off+10 of the send (off = 0: the first ten)
    m.arm_enobufs(pat << off, 10 + off as i32);
    let r = tx.send(target);
    let attempts = m.disarm_enobufs();
    let ok = r.is_ok();
    let follow: M = (1, Blob(body(mid(shape_id, pat, 1), 700)), vec![], vec![]);
    let mut problems: Vec<(String, Value)> = Vec::new();
    if let Err(e) = tx.send(follow) {
        problems.push(("follow-on-send-failed".into(), json!({"error": e.to_string()})));
    }
    // receive everything
    let mut got: Vec<(u32, bool, bool)> = Vec::new();
    let mut errors = 0usize;
    for _ in 0..8 {
        match rx.try_recv() {
            Ok((seq, blob, ss, gs)) => {
                let want_len = if seq == 0 { len } else { 700 };
                let intact = body_diff(mid(shape_id, pat, seq), want_len, &blob.0).is_none();
                let mut att_ok = true;
                if seq == 0 {
                    if ss.len() != kept.len() || gs.len() != kept.len() {
                        att_ok = false;
                    } else {
                        for (i, s) in ss.iter().enumerate() {
                            let nonce = mid(shape_id, pat, 90 + i as u32);
                            let _ = s.send(nonce);
                            if kept[i].try_recv().ok() != Some(nonce) {
                                att_ok = false;
                            }
                            if &gs[i][..] != &body(mid(shape_id, pat, 50 + i as u32), 3000 + i)[..] {
                                att_ok = false;
                            }
                        }
                    }
                }
                got.push((seq, intact, att_ok));
            },
            Err(TryRecvError::Empty) => break,
            Err(_) => errors += 1,
        }
    }
    let seqs: Vec<u32> = got.iter().map(|g| g.0).collect();
    for g in &got {
        if !g.1 {
            problems.push(("altered-or-short-message-delivered".into(), json!({"seq": g.0, "send_ok": ok})));
        }
        if !g.2 {
            problems.push(("attachments-missing-or-wrong".into(), json!({"seq": g.0, "send_ok": ok})));
        }
    }
    if ok && seqs != vec![0, 1] {
        problems.push(("success-reported-but-not-delivered-once".into(), json!({"delivered": seqs})));
    }
    if !ok {
        let allowed = seqs == vec![1] || seqs == vec![0, 1];
        if !allowed {
            problems.push(("after-failed-send".into(), json!({"delivered": seqs, "receive_errors": errors})));
        }
        if seqs == vec![0, 1] {
            // a message that the sender was told had failed arrived complete: allowed by the statement
            // ("either completes or returns an error" speaks about the sender's view), but worth counting
        }
    }
    (problems, ok, attempts, errors)
}

pub fn run(ctx: &Ctx) {
    let rep = &ctx.rep;
    let sz = sizes();
    let m = need_mon();
    let off = ctx.opt_u64("off", 0).min(50) as u32;
    let mut idx = 0u64;
    for shape in 0..5usize {
        for att in [false, true] {
            idx += 1;
            if idx % ctx.nbatch != ctx.batch {
                continue;
            }
            let (pats, all) = patterns(ctx, shape, att);
            let mut oks = 0;
            let mut errs = 0;
            for &pat in &pats {
                let case = ((shape * 2 + att as usize) as u64) * 10_000 + pat;
                if !ctx.want(case) {
                    continue;
                }
                let _g = op_begin("send-under-enobufs-then-receive", case);
                let (problems, ok, attempts, rerrs) = run_one(&sz, shape, att, pat, off);
                drop(_g);
                rep.case(&(shape, att, pat, sz.sndbuf, off), true);
                rep.stat("sends", 1);
                rep.stat(if ok { "sends_ok" } else { "sends_err" }, 1);
                rep.stat("transmission_attempts", attempts as i64);
                rep.stat_max("attempts_in_one_send", attempts as i64);
                rep.stat("receive_side_errors", rerrs as i64);
                if ok {
                    oks += 1
                } else {
                    errs += 1
                }
                let base = json!({"shape": SHAPES[shape], "attachments": att, "pattern": format!("{:010b}", pat), "first_attempt_covered": off, "sndbuf": sz.sndbuf, "len": shape_len(&sz, shape),
                    "send_ok": ok, "attempts": attempts, "variant": variant()});
                let mut seen = std::collections::BTreeSet::new();
                for (k, d) in problems {
                    if seen.insert(k.clone()) {
                        rep.violation(&format!("C13:{}:{}", k, SHAPES[shape]), json!({"ctx": base, "problem": d}), ctx.replay(case));
                    }
                }
                if pat == 5 {
                    rep.sample(json!({"ctx": base}));
                }
            }
            if all {
                rep.stat("shapes_with_all_1024_patterns", 1);
            }
            rep.stat(&format!("shape_{}_{}_ok", SHAPES[shape], att as u8), oks);
            rep.stat(&format!("shape_{}_{}_err", SHAPES[shape], att as u8), errs);
        }
    }
    let (ct, tr) = (m.stat(5), m.stat(6));
    if ct + tr > 0 {
        rep.violation("C13:truncated-packet-received", json!({"msg_ctrunc": ct, "msg_trunc": tr, "sndbuf": sz.sndbuf}), ctx.replay(0));
    }
}
