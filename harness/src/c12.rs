//! C12 — a sender crashing mid-send cannot corrupt a message or falsely close a channel.
//!
//! Fault enumeration: an exec'd child sends two complete messages, arms "SIGKILL before the
//! k-th socketpair/sendmsg/send/close of this thread" in the interposer and sends the target
//! message; k runs over every system-call boundary of that send (learned by a counting run).

use crate::c01::{sizes, Sizes};
use crate::gen::Blob;
use crate::util::*;
use crate::Ctx;
use ipc_channel::ipc::{self, IpcError, IpcOneShotServer, IpcReceiverSet, IpcSelectionResult, IpcSender, IpcSharedMemory, OpaqueIpcSender, TryRecvError};
use ipc_channel::router::RouterProxy;
use serde_json::{json, Value};
use std::sync::atomic::{AtomicBool, Ordering};
use std::sync::{Arc, Mutex};

// the third part, in the target message only: a clone of the very sender the message is sent on (if the
// message is torn and discarded, that handle must go with it, or the channel never disconnects)
type Att = Option<(IpcSender<u64>, IpcSharedMemory, Option<OpaqueIpcSender>)>;
type M = (u32, Blob, Att);

fn mid(shape: u64, seq: u32) -> u64 {
    (shape << 24) ^ seq as u64 ^ 0xc120_0000_0000_0000
}

/// Child: bootstrap a sender handle, send two complete messages, then the target with the kill armed.
pub fn role_crasher(args: &[String]) -> i32 {
    let name = args[0].clone();
    let shape: u64 = args[1].parse().unwrap();
    let len: usize = args[2].parse().unwrap();
    let att = args[3] == "1";
    let k: i32 = args[4].parse().unwrap();
    let count_file = args[5].clone();
    let m = need_mon();
    let (btx, brx) = ipc::channel::<IpcSender<M>>().unwrap();
    let boot: IpcSender<IpcSender<IpcSender<M>>> = IpcSender::connect(name).unwrap();
    boot.send(btx).unwrap();
    drop(boot);
    let tx = brx.recv().unwrap();
    drop(brx);
    for seq in 0..2u32 {
        tx.send((seq, Blob(body(mid(shape, seq), 100 + seq as usize)), None)).unwrap();
    }
    let a: Att = if att {
        let (t, _r) = ipc::channel::<u64>().unwrap();
        Some((t, IpcSharedMemory::from_bytes(&body(mid(shape, 77), 5000)), Some(tx.clone().to_opaque())))
    } else {
        None
    };
    let msg: M = (2, Blob(body(mid(shape, 2), len)), a);
    if k < 0 {
        m.count_kill_calls();
    } else {
        m.arm_kill(k);
    }
    let r = tx.send(msg);
    let n = m.disarm_kill();
    let _ = std::fs::write(&count_file, format!("{} {}", n, r.is_ok() as u8));
    0
}

#[derive(Debug, Clone)]
enum Obs {
    Msg { seq: u32, intact: bool, att_ok: bool, len: usize },
    Disconnected,
    Error(String),
}

fn classify(shape: u64, len2: usize, m: M) -> Obs {
    let (seq, blob, att) = m;
    let want_len = match seq {
        0 => 100,
        1 => 101,
        2 => len2,
        _ => 64,
    };
    let intact = body_diff(mid(shape, seq), want_len, &blob.0).is_none();
    // every message that carries a region carries its own: the target's, or the survivor's per message
    let att_ok = match att {
        None => true,
        Some((_t, g, _own)) if seq == 2 => &g[..] == &body(mid(shape, 77), 5000)[..],
        Some((_t, g, _own)) => &g[..] == &body(mid(shape, 77 + seq), 3000 + seq as usize)[..],
    };
    Obs::Msg { seq, intact, att_ok, len: blob.0.len() }
}

pub struct Outcome {
    pub obs: Vec<Obs>,
    pub child_calls: i32,
    pub child_send_ok: bool,
    pub child_signal: Option<i32>,
    pub stuck: Option<String>,
    pub undecided: Option<String>,
    pub panic: Option<String>,
}

/// One run of (shape, k). observer: 0 recv, 1 try_recv loop, 2 select, 3 router.
pub fn run_one(shape: u64, len: usize, att: bool, survivor: bool, observer: u8, k: i32, concurrent: bool) -> Outcome {
    let (tx, rx) = must("channel", ipc::channel::<M>());
    let (server, name) = must("server", IpcOneShotServer::<IpcSender<IpcSender<M>>>::new());
    let count_file = std::env::temp_dir().join(format!("c12-{}-{}-{}.cnt", shape, k, observer)).to_string_lossy().into_owned();
    let mut child = std::process::Command::new(self_exe())
        .args(["role", "c12-crasher", &name, &shape.to_string(), &len.to_string(), if att { "1" } else { "0" }, &k.to_string(), &count_file])
        .spawn()
        .expect("spawn crasher");
    let (_b, btx) = server.accept().expect("accept");
    let surv = if survivor { Some(tx.clone()) } else { None };
    let surv_att = att;
    btx.send(tx).expect("hand over sender");
    drop(btx);

    let child_done = Arc::new(AtomicBool::new(false));
    let surv_done = Arc::new(AtomicBool::new(false));
    let obs_log: Arc<Mutex<Vec<Obs>>> = Arc::new(Mutex::new(Vec::new()));
    let router_closed = Arc::new(AtomicBool::new(false));

    // the observer runs on a watched thread; it stops after Disconnected/closure, or - with a
    // survivor - after the survivor's second message (seq 11) has arrived
    let (ol, cd, sd, rc) = (obs_log.clone(), child_done.clone(), surv_done.clone(), router_closed.clone());
    let expect_more = survivor;
    let observe = move || {
        let finished = |l: &Vec<Obs>| -> bool {
            l.iter().any(|o| matches!(o, Obs::Disconnected)) || (expect_more && l.iter().any(|o| matches!(o, Obs::Msg { seq: 11, .. })))
        };
        match observer {
            0 => loop {
                let r = rx.recv();
                let mut l = ol.lock().unwrap();
                match r {
                    Ok(m) => l.push(classify(shape, len, m)),
                    Err(IpcError::Disconnected) => l.push(Obs::Disconnected),
                    Err(e) => l.push(Obs::Error(format!("{:?}", e))),
                }
                if finished(&l) || l.len() > 40 {
                    return;
                }
            },
            1 => {
                let mut idle_since: Option<u64> = None;
                loop {
                    let r = rx.try_recv();
                    let mut l = ol.lock().unwrap();
                    match r {
                        Ok(m) => {
                            l.push(classify(shape, len, m));
                            idle_since = None;
                        },
                        Err(TryRecvError::Empty) => {
                            // with everything settled, five seconds of Empty means nothing more will come
                            if cd.load(Ordering::SeqCst) && (!expect_more || sd.load(Ordering::SeqCst)) {
                                let now = now_ns();
                                let t = *idle_since.get_or_insert(now);
                                if now - t > 5_000_000_000 {
                                    l.push(Obs::Error("polling: Empty for 5 s after every sender finished".into()));
                                    return;
                                }
                            }
                            drop(l);
                            std::thread::yield_now();
                            continue;
                        },
                        Err(TryRecvError::IpcError(IpcError::Disconnected)) => l.push(Obs::Disconnected),
                        Err(e) => l.push(Obs::Error(format!("{:?}", e))),
                    }
                    if finished(&l) || l.len() > 40 {
                        return;
                    }
                }
            },
            2 => {
                let mut set = IpcReceiverSet::new().expect("set");
                let id = set.add(rx).expect("add");
                loop {
                    let evs = match set.select() {
                        Ok(e) => e,
                        Err(e) => {
                            ol.lock().unwrap().push(Obs::Error(format!("select: {}", e)));
                            return;
                        },
                    };
                    let mut l = ol.lock().unwrap();
                    for ev in evs {
                        match ev {
                            IpcSelectionResult::MessageReceived(i, om) if i == id => match om.to::<M>() {
                                Ok(m) => l.push(classify(shape, len, m)),
                                Err(e) => l.push(Obs::Error(format!("decode: {}", e))),
                            },
                            IpcSelectionResult::MessageReceived(i, _) => l.push(Obs::Error(format!("unknown id {}", i))),
                            IpcSelectionResult::ChannelClosed(_) => l.push(Obs::Disconnected),
                        }
                    }
                    if finished(&l) || l.len() > 40 {
                        return;
                    }
                }
            },
            _ => {
                struct G(Arc<AtomicBool>, Arc<Mutex<Vec<Obs>>>);
                impl Drop for G {
                    fn drop(&mut self) {
                        self.1.lock().unwrap().push(Obs::Disconnected);
                        self.0.store(true, Ordering::SeqCst);
                    }
                }
                let proxy: &'static RouterProxy = Box::leak(Box::new(RouterProxy::new()));
                let g = G(rc.clone(), ol.clone());
                let ol2 = ol.clone();
                proxy.add_route(
                    rx.to_opaque(),
                    Box::new(move |om| {
                        let _g = &g;
                        let o = match om.to::<M>() {
                            Ok(m) => classify(shape, len, m),
                            Err(e) => Obs::Error(format!("decode: {}", e)),
                        };
                        ol2.lock().unwrap().push(o);
                    }),
                );
                // wait (on this watched thread) until the route finished
                let mut idle_since: Option<u64> = None;
                loop {
                    {
                        let l = ol.lock().unwrap();
                        if finished(&l) || l.len() > 40 {
                            return;
                        }
                    }
                    if cd.load(Ordering::SeqCst) && (!expect_more || sd.load(Ordering::SeqCst)) {
                        let now = now_ns();
                        let t = *idle_since.get_or_insert(now);
                        if now - t > 5_000_000_000 {
                            ol.lock().unwrap().push(Obs::Error("router: nothing more delivered 5 s after every sender finished".into()));
                            return;
                        }
                    }
                    std::thread::sleep(std::time::Duration::from_micros(300));
                }
            },
        }
    };

    let settled_flags = (child_done.clone(), surv_done.clone());
    let settled = move || settled_flags.0.load(Ordering::SeqCst) && (!survivor || settled_flags.1.load(Ordering::SeqCst));

    // driver for child + survivor, concurrent with the observer when requested
    let (cd2, sd2) = (child_done.clone(), surv_done.clone());
    let side = std::thread::spawn(move || {
        let st = child.wait().expect("wait crasher");
        cd2.store(true, Ordering::SeqCst);
        let mut surv_errs = Vec::new();
        if let Some(s) = surv {
            let mut kept = Vec::new();
            for seq in [10u32, 11] {
                // with an attachment-carrying target, the survivor's messages carry attachments of
                // their own (what the interrupted message brought along must not show up in them)
                let a: Att = if surv_att {
                    let (t, r) = must("channel", ipc::channel::<u64>());
                    kept.push(r);
                    Some((t, IpcSharedMemory::from_bytes(&body(mid(shape, 77 + seq), 3000 + seq as usize)), None))
                } else {
                    None
                };
                if let Err(e) = s.send((seq, Blob(body(mid(shape, seq), 64)), a)) {
                    surv_errs.push(format!("survivor send {}: {}", seq, e));
                }
            }
            sd2.store(true, Ordering::SeqCst);
            // keep the surviving handle alive until the observer has seen its messages (or gave up)
            std::thread::sleep(std::time::Duration::from_millis(1));
            return (st, surv_errs, Some(s));
        }
        (st, surv_errs, None)
    });
    let mut side = Some(side);
    let mut side_res = None;
    if !concurrent {
        // observe only after the crash (and the survivor's sends) happened
        side_res = Some(side.take().unwrap().join().expect("side thread"));
    }
    let w = watch("c12-observer", 20_000, &settled, observe);
    let (st, surv_errs, keep) = match side_res {
        Some(x) => x,
        None => side.take().unwrap().join().expect("side thread"),
    };
    drop(keep);
    use std::os::unix::process::ExitStatusExt;
    let child_signal = st.signal();
    let (child_calls, child_send_ok) = std::fs::read_to_string(&count_file)
        .ok()
        .and_then(|s| {
            let mut it = s.split_whitespace();
            Some((it.next()?.parse().ok()?, it.next()? == "1"))
        })
        .unwrap_or((-1, false));
    let _ = std::fs::remove_file(&count_file);
    let mut obs = std::mem::take(&mut *obs_log.lock().unwrap());
    for e in surv_errs {
        obs.push(Obs::Error(e));
    }
    let (mut stuck, mut undecided, mut panic) = (None, None, None);
    match w {
        Watch::Done(()) => {},
        Watch::Stuck(s) => stuck = Some(s),
        Watch::Unknown(s) => undecided = Some(s),
        Watch::Panicked(s) => panic = Some(s),
    }
    let _ = router_closed;
    Outcome { obs, child_calls, child_send_ok, child_signal, stuck, undecided, panic }
}

const OBSERVERS: [&str; 4] = ["recv", "try_recv", "select", "router"];

pub fn judge(o: &Outcome, survivor: bool, observer: u8) -> Vec<(String, Value)> {
    let mut p: Vec<(String, Value)> = Vec::new();
    let on = OBSERVERS[observer as usize];
    if let Some(s) = &o.panic {
        p.push((format!("observer-panicked:{}", on), json!({"panic": s})));
        return p;
    }
    if let Some(s) = &o.stuck {
        p.push((format!("observer-waits-forever:survivor={}:{}", survivor as u8, on), json!({"why": s})));
    }
    let msgs: Vec<(u32, bool, bool, usize)> = o.obs.iter().filter_map(|x| if let Obs::Msg { seq, intact, att_ok, len } = x { Some((*seq, *intact, *att_ok, *len)) } else { None }).collect();
    // earlier messages intact and first
    if msgs.len() < 2 || msgs[0].0 != 0 || msgs[1].0 != 1 || !msgs[0].1 || !msgs[1].1 {
        p.push((format!("earlier-message-lost-or-damaged:{}", on), json!({"messages": msgs.iter().take(6).collect::<Vec<_>>()})));
    }
    for m in &msgs {
        if !m.1 || !m.2 {
            p.push((format!("damaged-message-delivered:{}", on), json!({"seq": m.0, "len": m.3, "payload_intact": m.1, "attachments_intact": m.2})));
        }
    }
    // the child's send returned Ok (it wrote that down before exiting): that message counts as sent
    if o.child_send_ok && o.stuck.is_none() && !msgs.iter().any(|m| m.0 == 2) {
        p.push((format!("completed-message-not-delivered:{}", on), json!({"observed": o.obs.iter().map(|x| format!("{:?}", x)).collect::<Vec<_>>()})));
    }
    let seqs: Vec<u32> = msgs.iter().map(|m| m.0).collect();
    let mut sorted = seqs.clone();
    sorted.sort();
    sorted.dedup();
    if sorted != seqs {
        p.push((format!("order-or-duplicate:{}", on), json!({"seqs": seqs})));
    }
    let disc_pos = o.obs.iter().position(|x| matches!(x, Obs::Disconnected));
    if survivor {
        let got11 = o.obs.iter().position(|x| matches!(x, Obs::Msg { seq: 11, .. }));
        if let Some(d) = disc_pos {
            if got11.map(|g| d < g).unwrap_or(true) {
                p.push((format!("disconnected-although-sender-survives:{}", on), json!({"observed": o.obs.iter().map(|x| format!("{:?}", x)).collect::<Vec<_>>()})));
            }
        }
        if got11.is_none() && o.stuck.is_none() && disc_pos.is_none() {
            p.push((format!("survivor-messages-missing:{}", on), json!({"observed": o.obs.iter().map(|x| format!("{:?}", x)).collect::<Vec<_>>()})));
        }
        for x in &o.obs {
            if let Obs::Error(e) = x {
                // (after a reported disconnection the observer has dropped the receiver; the send
                // failure is then a consequence already covered by the signature above)
                if e.starts_with("survivor send") && disc_pos.is_none() {
                    p.push((format!("survivor-send-failed:{}", on), json!({"error": e})));
                }
            }
        }
    } else if disc_pos.is_none() && o.stuck.is_none() {
        p.push((format!("no-disconnect-without-survivor:{}", on), json!({"observed": o.obs.iter().map(|x| format!("{:?}", x)).collect::<Vec<_>>()})));
    }
    p
}

pub fn run(ctx: &Ctx) {
    let rep = &ctx.rep;
    let sz: Sizes = sizes();
    need_mon();
    // the grid: this batch takes the shapes whose index is congruent to its number
    let max_packets = ctx.opt_u64("max_packets", if ctx.thorough { 6 } else { 3 });
    let mut shapes: Vec<(usize, bool, bool, u8)> = Vec::new();
    for packets in 1..=max_packets as usize {
        for att in [false, true] {
            for survivor in [false, true] {
                for observer in 0..4u8 {
                    shapes.push((packets, att, survivor, observer));
                }
            }
        }
    }
    // leakcheck=1 (run under C11): the same crash grid, but what is judged is the receiving
    // process's descriptor table and shared mappings once every handle of the run is gone - an
    // interrupted message that is discarded must not leave its attachments behind
    let leakcheck = ctx.opt_u64("leakcheck", 0) == 1;
    let mut covered_k = 0i64;
    for (si, (packets, att, survivor, observer)) in shapes.iter().cloned().enumerate() {
        if si as u64 % ctx.nbatch != ctx.batch {
            continue;
        }
        if leakcheck && (!att || observer == 3) {
            continue; // the router observer leaks its router on purpose
        }
        let shape_id = si as u64;
        if let Some(c) = ctx.only_case {
            if c / 1000 != shape_id {
                continue;
            }
        }
        // encoded message = 4 + 8 + len + option tag(1) [+ attachments 8+8]; aim at `packets` packets
        let len = if packets == 1 { 3000 } else { sz.f1 + (packets - 2) * sz.f2 + sz.f2 / 2 };
        // counting run: how many kill-relevant calls does this send make?
        let cnt = run_one(shape_id, len, att, survivor, observer, -1, false);
        let base = json!({"shape": shape_id, "packets": packets, "attachments": att, "survivor": survivor, "observer": OBSERVERS[observer as usize],
            "len": len, "sndbuf": sz.sndbuf, "variant": variant()});
        if cnt.child_calls <= 0 {
            rep.inconclusive(&format!("c12 shape {}: counting run failed ({:?})", shape_id, cnt.undecided));
            continue;
        }
        let n = cnt.child_calls;
        for (k_sig, d) in judge(&cnt, survivor, observer).into_iter().filter(|_| !leakcheck) {
            rep.violation(&format!("C12:no-crash:{}", k_sig), json!({"ctx": base, "problem": d}), ctx.replay(shape_id * 1000 + 999));
        }
        for k in 0..=n {
            if let Some(c) = ctx.only_case {
                if c % 1000 != k as u64 && c % 1000 != 999 {
                    continue;
                }
            }
            let concurrent = (k + si as i32) % 2 == 0;
            let before = if leakcheck { Some((fd_table(), shared_maps().len())) } else { None };
            let o = run_one(shape_id, len, att, survivor, observer, k, concurrent);
            covered_k += 1;
            if let Some((bf, bm)) = before {
                if o.undecided.is_none() && o.stuck.is_none() && o.panic.is_none() {
                    let after = fd_table();
                    let extra: Vec<(i32, String)> = after.iter().filter(|(fd, _)| !bf.contains_key(fd) && **fd < 1000).map(|(a, b)| (*a, b.clone())).collect();
                    let maps = shared_maps().len();
                    let delivered = o.obs.iter().any(|x| matches!(x, Obs::Msg { seq: 2, .. }));
                    let what = if delivered { "delivered" } else { "interrupted" };
                    let mut kinds = std::collections::BTreeSet::new();
                    for (_, t) in &extra {
                        kinds.insert(if t.starts_with("socket:") { "socket" } else if t.contains("ipc-channel-shared-memory") || t.contains("memfd:") { "shared-memory" } else { "other" });
                    }
                    for kind in kinds {
                        rep.violation(&format!("C11:descriptor-leaked:{}:after-{}-message-of-crashed-sender", kind, what),
                            json!({"ctx": base, "k": k, "of": n, "extra": extra.iter().take(6).collect::<Vec<_>>(), "observed": o.obs.iter().map(|x| format!("{:?}", x)).collect::<Vec<_>>()}),
                            ctx.replay(shape_id * 1000 + k as u64));
                    }
                    if maps != bm {
                        rep.violation(&format!("C11:shared-mapping-leaked:after-{}-message-of-crashed-sender", what),
                            json!({"ctx": base, "k": k, "of": n, "before": bm, "after": maps}), ctx.replay(shape_id * 1000 + k as u64));
                    }
                    rep.stat("crash_runs_checked_for_leaks", 1);
                    if !delivered && k > 0 && k < n {
                        rep.stat("interrupted_messages_with_attachments_checked_for_leaks", 1);
                    }
                }
                rep.case(&("leak", packets, survivor, observer, k), true);
                continue;
            }
            if let Some(u) = &o.undecided {
                rep.inconclusive(&format!("c12 shape {} k {}: {}", shape_id, k, u));
                continue;
            }
            // classification of the crash point for the signature
            let partial = o.obs.iter().filter(|x| matches!(x, Obs::Msg { seq: 2, .. })).count() == 0 && k > 0 && k < n;
            let crash_class = if k >= n { "after-send" } else if k == 0 { "before-send" } else { "mid-send" };
            let killed = o.child_signal == Some(libc::SIGKILL);
            if k < n && !killed {
                rep.inconclusive(&format!("c12 shape {} k {}: child was not killed (signal {:?})", shape_id, k, o.child_signal));
                continue;
            }
            rep.case(&(packets, att, survivor, observer, k, sz.sndbuf), true);
            rep.stat("crash_runs", 1);
            rep.stat(&format!("crash_{}", crash_class), 1);
            if partial {
                rep.stat("runs_with_partial_message", 1);
            }
            if o.obs.iter().any(|x| matches!(x, Obs::Msg { seq: 2, intact: true, .. })) {
                rep.stat("target_delivered_intact", 1);
            }
            let errs = o.obs.iter().filter(|x| matches!(x, Obs::Error(_))).count();
            rep.stat("observer_error_results", errs as i64);
            let mut seen = std::collections::BTreeSet::new();
            for (sig, d) in judge(&o, survivor, observer) {
                let full = format!("C12:{}:packets={}:att={}:{}", crash_class, packets.min(2), att as u8, sig);
                if seen.insert(full.clone()) {
                    rep.violation(&full, json!({"ctx": base, "k": k, "of": n, "concurrent_observer": concurrent, "problem": d,
                        "observed": o.obs.iter().map(|x| format!("{:?}", x)).collect::<Vec<_>>()}), ctx.replay(shape_id * 1000 + k as u64));
                }
            }
            if k == n / 2 && si % 5 == 0 {
                rep.sample(json!({"ctx": base, "k": k, "of": n, "child_signal": o.child_signal, "observed": o.obs.iter().map(|x| format!("{:?}", x)).collect::<Vec<_>>()}));
            }
        }
        rep.stat("shapes", 1);
        rep.stat_max("syscall_boundaries_per_send", n as i64);
    }
    rep.stat("crash_points_enumerated", covered_k);
}
