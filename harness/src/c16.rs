//! C16 — undecodable or mismatched payloads produce errors, not panics or leaks.
//!
//! Raw (bytes, channels, regions) triples are injected at platform level into a channel whose
//! receiving end is a normal typed `IpcReceiver`, re-typed for each of 12 expected types.
//! OS transports only (the property's anchors do not include the in-process backend).
#![cfg(not(feature = "inproc"))]

use crate::util::*;
use crate::Ctx;
use ipc_channel::ipc::{IpcOneShotServer, IpcReceiver, IpcReceiverSet, IpcSelectionResult, IpcSender, IpcSharedMemory, OpaqueIpcReceiver};
use ipc_channel::platform::{self, OsIpcChannel, OsIpcReceiver, OsIpcSender, OsIpcSharedMemory};
use serde::{Deserialize, Serialize};
use serde_json::{json, Value};

#[derive(Serialize, Deserialize, Debug)]
pub enum E3 {
    A,
    B(u32),
    C { x: String, y: i16 },
}

#[derive(Serialize, Deserialize)]
pub struct Nested {
    a: Vec<IpcSender<u64>>,
    b: Vec<IpcSharedMemory>,
    s: String,
    r: Option<IpcReceiver<u64>>,
}

/// What an Ok value hands to the program.
#[derive(Default)]
pub struct Handed {
    senders: Vec<IpcSender<u64>>,
    receivers: Vec<IpcReceiver<u64>>,
    regions: Vec<IpcSharedMemory>,
}

pub trait Inspect {
    fn hand(self) -> Handed;
}
macro_rules! plain {
    ($($t:ty),*) => { $(impl Inspect for $t { fn hand(self) -> Handed { Handed::default() } })* };
}
plain!(u8, u64, i32, String, Vec<u8>, Vec<String>, Option<(u32, String)>, E3);
impl Inspect for IpcSender<u64> {
    fn hand(self) -> Handed {
        Handed { senders: vec![self], ..Default::default() }
    }
}
impl Inspect for IpcReceiver<u64> {
    fn hand(self) -> Handed {
        Handed { receivers: vec![self], ..Default::default() }
    }
}
impl Inspect for IpcSharedMemory {
    fn hand(self) -> Handed {
        Handed { regions: vec![self], ..Default::default() }
    }
}
impl Inspect for Nested {
    fn hand(self) -> Handed {
        Handed { senders: self.a, regions: self.b, receivers: self.r.into_iter().collect() }
    }
}
impl Inspect for (IpcSender<u64>, IpcSender<u64>) {
    fn hand(self) -> Handed {
        Handed { senders: vec![self.0, self.1], ..Default::default() }
    }
}

/// Field whose decoding receives from the channel it was just handed (a receive inside a
/// deserialisation): the inner message is decoded while the outer one still has unclaimed
/// attachments. What the inner decode returned is left in INNER_SEEN.
pub struct InnerRecv;
pub enum InnerSeen {
    Empty,
    Err(String),
    Ok(IpcSender<u64>),
}
thread_local! { static INNER_SEEN: std::cell::RefCell<Vec<InnerSeen>> = const { std::cell::RefCell::new(Vec::new()) }; }
impl Serialize for InnerRecv {
    fn serialize<S: serde::Serializer>(&self, s: S) -> Result<S::Ok, S::Error> {
        s.serialize_unit()
    }
}
impl<'de> Deserialize<'de> for InnerRecv {
    fn deserialize<D: serde::Deserializer<'de>>(d: D) -> Result<Self, D::Error> {
        let rx = IpcReceiver::<IpcSender<u64>>::deserialize(d)?;
        let seen = match rx.try_recv() {
            Ok(s) => InnerSeen::Ok(s),
            Err(ipc_channel::ipc::TryRecvError::Empty) => InnerSeen::Empty,
            Err(e) => InnerSeen::Err(format!("{:?}", e)),
        };
        INNER_SEEN.with(|i| i.borrow_mut().push(seen));
        Ok(InnerRecv)
    }
}
#[derive(Serialize, Deserialize)]
pub struct Outer {
    head: IpcSender<u64>,
    inner: InnerRecv,
    tail: IpcSender<u64>,
}

fn lands_at(s: &IpcSender<u64>, n: u64, places: &[(&str, &OsIpcReceiver)]) -> String {
    let sent = s.send(n).is_ok();
    let want = bincode::serialize(&n).unwrap();
    for (name, rx) in places {
        if matches!(rx.try_recv(), Ok((d, _, _)) if d == want) {
            return name.to_string();
        }
    }
    if sent { "nowhere-known".into() } else { "send-failed".into() }
}

/// Nested decode: the outer message (head sender, a receiver, tail sender) is well formed; the
/// inner message waiting on that receiver is a mismatched payload for its expected type
/// (`IpcSender<u64>`): an index with no attachment behind it, or with one attachment of its own.
fn nested_case(ctx: &Ctx, case: u64, r: &mut Rng, h: &mut Harness) {
    let rep = &ctx.rep;
    let base_fds = fd_count();
    let mut problems: Vec<(String, Value)> = Vec::new();
    let (head_tx, head_rx) = platform::channel().expect("channel");
    let (inner_tx, inner_rx) = platform::channel().expect("channel");
    let (tail_tx, tail_rx) = platform::channel().expect("channel");
    let (own_tx, own_rx) = platform::channel().expect("channel");
    let inner_present = r.chance(900);
    let inner_own = r.chance(350);
    let inner_idx: u64 = if inner_own && r.chance(500) { 0 } else { *r.pick(&[0u64, 1, 2, 2, 3, u64::MAX]) };
    let mut own_tx = Some(own_tx);
    if inner_present {
        let chans = if inner_own { vec![OsIpcChannel::Sender(own_tx.take().unwrap())] } else { vec![] };
        if let Err(e) = inner_tx.send(&bincode::serialize(&inner_idx).unwrap(), chans, vec![]) {
            rep.inconclusive(&format!("c16 nested case {}: inner injection failed: {}", case, e));
            return;
        }
    }
    drop(own_tx);
    let via_set = r.chance(300);
    let bytes = bincode::serialize(&(0u64, 1u64, 2u64)).unwrap();
    if let Err(e) = h.raw.send(&bytes, vec![OsIpcChannel::Sender(head_tx), OsIpcChannel::Receiver(inner_rx), OsIpcChannel::Sender(tail_tx)], vec![]) {
        rep.inconclusive(&format!("c16 nested case {}: raw injection failed: {}", case, e));
        return;
    }
    INNER_SEEN.with(|i| i.borrow_mut().clear());
    let before_panics = panic_count();
    let res = std::panic::catch_unwind(std::panic::AssertUnwindSafe(|| -> Result<Outer, String> {
        let opaque = h.opaque.take().unwrap();
        if via_set {
            let mut set = IpcReceiverSet::new().expect("set");
            set.add_opaque(opaque).expect("add");
            let mut out = Err("no message".to_string());
            for ev in set.select().map_err(|e| e.to_string())? {
                if let IpcSelectionResult::MessageReceived(_, om) = ev {
                    out = om.to::<Outer>().map_err(|e| e.to_string());
                }
            }
            out
        } else {
            let rx: IpcReceiver<Outer> = opaque.to();
            let v = rx.try_recv().map_err(|e| format!("{:?}", e));
            h.opaque = Some(rx.to_opaque());
            v
        }
    }));
    if h.opaque.is_none() {
        *h = Harness::new();
    }
    let places = [("outer-head", &head_rx), ("outer-tail", &tail_rx), ("inner-own", &own_rx)];
    let mut outcome = "ok";
    match res {
        Err(_) => outcome = "panic",
        Ok(Err(e)) => {
            outcome = "err";
            problems.push(("well-formed-enclosing-message-failed-to-decode".into(), json!({"error": e})));
        },
        Ok(Ok(o)) => {
            let a = lands_at(&o.head, case << 16, &places);
            let b = lands_at(&o.tail, (case << 16) + 1, &places);
            if a != "outer-head" || b != "outer-tail" {
                problems.push(("enclosing-message-endpoints-misplaced".into(), json!({"head_lands_at": a, "tail_lands_at": b})));
            }
        },
    }
    if outcome == "panic" || panic_count() > before_panics {
        let p = take_panics();
        let at = p.last().cloned().unwrap_or_default();
        let loc = at.split(" at ").nth(1).and_then(|s| s.split(' ').next()).unwrap_or("?").replace("/repo/", "");
        let loc_file = loc.split(':').next().unwrap_or("?").to_string();
        problems.push((format!("panic:{}:nested", loc_file), json!({"panic": at})));
    }
    let seen: Vec<InnerSeen> = INNER_SEEN.with(|i| i.borrow_mut().drain(..).collect());
    let mut inner_outcome = "not-reached".to_string();
    for s in &seen {
        match s {
            InnerSeen::Empty => {
                inner_outcome = "empty".into();
                if inner_present {
                    problems.push(("inner-message-not-delivered".into(), json!({})));
                }
            },
            InnerSeen::Err(e) => {
                inner_outcome = "err".into();
                if inner_present && inner_own && inner_idx == 0 {
                    problems.push(("well-formed-inner-message-failed-to-decode".into(), json!({"error": e})));
                }
            },
            InnerSeen::Ok(s) => {
                inner_outcome = "ok".into();
                let at = lands_at(s, (case << 16) + 2, &places);
                if !(inner_present && inner_own && inner_idx == 0 && at == "inner-own") {
                    problems.push(("nested-decode-yielded-endpoint-that-was-not-attached-to-that-message".into(),
                        json!({"inner_index": inner_idx, "inner_attachments": if inner_own {1} else {0}, "endpoint_belongs_to": at})));
                }
            },
        }
    }
    drop(seen);
    if outcome != "panic" {
        // every handle the decode produced is gone now; nothing of either message may be kept
        for (name, rx) in places.iter() {
            let mut closed = false;
            for _ in 0..8 {
                match rx.try_recv() {
                    Ok(_) => continue,
                    Err(e) => {
                        closed = e.channel_is_closed();
                        break;
                    },
                }
            }
            if !closed {
                problems.push(("attached-sender-kept-open".into(), json!({"which": name})));
            }
        }
        if !inner_present && inner_tx.send(&[0u8; 8], vec![], vec![]).is_ok() {
            // the receiver travelled in the outer message and was dropped after decoding
            problems.push(("attached-receiver-kept-open".into(), json!({"which": "inner"})));
        }
    }
    drop(inner_tx);
    drop(head_rx);
    drop(tail_rx);
    drop(own_rx);
    let now = fd_count();
    if outcome != "panic" && !via_set && now != base_fds {
        problems.push(("descriptors-not-released".into(), json!({"before": base_fds, "after": now})));
    }
    rep.case(&("nested", inner_present, inner_own, inner_idx.min(4), via_set), true);
    rep.stat("inputs", 1);
    rep.stat("nested_decodes", 1);
    rep.stat(&format!("nested_inner_{}", inner_outcome), 1);
    rep.stat(&format!("outcome_{}", outcome), 1);
    let base = json!({"case": case, "expected_type": TYPES[13], "input": "nested-mismatched-inner", "inner_present": inner_present, "inner_index": inner_idx,
        "inner_attachments": if inner_own {1} else {0}, "via": if via_set {"receiver-set"} else {"try_recv"}, "outcome": outcome, "inner_outcome": inner_outcome,
        "release": !cfg!(debug_assertions)});
    let mut seen_k = std::collections::BTreeSet::new();
    for (k, d) in problems {
        if seen_k.insert(k.clone()) {
            rep.violation(&format!("C16:{}", k), json!({"ctx": base, "problem": d}), ctx.replay(case));
        }
    }
    if case % 7 == 0 {
        rep.sample(json!({"ctx": base, "clean": seen_k.is_empty()}));
    }
}

pub const TYPES: [&str; 14] = ["u8", "u64", "i32", "String", "Vec<u8>", "Vec<String>", "Option<(u32,String)>", "enum", "IpcSender", "IpcReceiver",
    "IpcSharedMemory", "Nested{Vec<IpcSender>,Vec<IpcSharedMemory>,String,Option<IpcReceiver>}", "(IpcSender,IpcSender)",
    "Outer{IpcSender, field-that-receives-an-IpcSender-from-the-receiver-it-decodes, IpcSender}"];

/// Attachments of one injected message with the counterparts the harness keeps.
pub struct Attached {
    chan_kinds: Vec<bool>, // true = sender attached
    kept_rx: Vec<Option<OsIpcReceiver>>,
    kept_tx: Vec<Option<OsIpcSender>>,
    region_ids: Vec<(u64, usize)>,
}

fn idx_value(r: &mut Rng, mode: u8, valid: u64, count: u64) -> u64 {
    match mode {
        0 => valid,
        1 => count,          // just out of range
        2 => 1 << 40,        // far out of range
        3 => u64::MAX,       // usize::MAX (the "empty region" marker for regions)
        _ => {
            if count > 0 {
                r.below(count)
            } else {
                0
            }
        }, // possibly a duplicate
    }
}

/// A structurally valid encoding for expected type `ty` given the attachment counts; `tamper`
/// chooses how indices are set.
fn valid_encoding(r: &mut Rng, ty: usize, nchan: u64, nreg: u64, tamper: u8) -> Vec<u8> {
    let mut next_c = 0u64;
    let mut next_g = 0u64;
    let mut ci = |r: &mut Rng| {
        let v = idx_value(r, tamper, next_c.min(nchan.saturating_sub(1)), nchan);
        next_c += 1;
        v
    };
    let mut gi = |r: &mut Rng| {
        let v = idx_value(r, tamper, next_g.min(nreg.saturating_sub(1)), nreg);
        next_g += 1;
        v
    };
    let s = |r: &mut Rng| -> String { (0..r.below(12)).map(|_| (b'a' + r.below(26) as u8) as char).collect() };
    match ty {
        0 => bincode::serialize(&(r.next() as u8)).unwrap(),
        1 => bincode::serialize(&r.next()).unwrap(),
        2 => bincode::serialize(&(r.next() as i32)).unwrap(),
        3 => bincode::serialize(&s(r)).unwrap(),
        4 => bincode::serialize(&body(r.next(), r.below(300) as usize)).unwrap(),
        5 => bincode::serialize(&(0..r.below(5)).map(|_| s(r)).collect::<Vec<_>>()).unwrap(),
        6 => bincode::serialize(&if r.chance(500) { Some((r.next() as u32, s(r))) } else { None }).unwrap(),
        7 => bincode::serialize(&match r.below(3) {
            0 => E3::A,
            1 => E3::B(r.next() as u32),
            _ => E3::C { x: s(r), y: r.next() as i16 },
        })
        .unwrap(),
        8 | 9 => bincode::serialize(&ci(r)).unwrap(),
        10 => bincode::serialize(&gi(r)).unwrap(),
        11 => {
            let a: Vec<u64> = (0..r.below(4)).map(|_| ci(r)).collect();
            let b: Vec<u64> = (0..r.below(4)).map(|_| gi(r)).collect();
            let rr: Option<u64> = if r.chance(400) { Some(ci(r)) } else { None };
            bincode::serialize(&(a, b, s(r), rr)).unwrap()
        },
        _ => bincode::serialize(&(ci(r), ci(r))).unwrap(),
    }
}

fn mutate(r: &mut Rng, mut b: Vec<u8>) -> Vec<u8> {
    match r.below(4) {
        0 => {
            for _ in 0..r.range(1, 4) {
                if !b.is_empty() {
                    let i = r.below(b.len() as u64) as usize;
                    b[i] ^= 1 << r.below(8);
                }
            }
        },
        1 => {
            let n = r.below(b.len() as u64 + 1) as usize;
            b.truncate(n);
        },
        2 => {
            for _ in 0..r.range(1, 64) {
                b.push(r.next() as u8);
            }
        },
        _ => {
            if b.len() >= 8 {
                let i = r.below((b.len() - 7) as u64) as usize;
                let v: u64 = *r.pick(&[0, 1, 63, 64, 255, u64::MAX, 1 << 32]);
                b[i..i + 8].copy_from_slice(&v.to_le_bytes());
            }
        },
    }
    b
}

struct Harness {
    raw: OsIpcSender,
    opaque: Option<OpaqueIpcReceiver>,
}

impl Harness {
    fn new() -> Harness {
        let (server, name) = must("server", IpcOneShotServer::<u8>::new());
        let raw = OsIpcSender::connect(name).expect("raw connect");
        raw.send(&bincode::serialize(&1u8).unwrap(), vec![], vec![]).expect("first");
        let (rx, _) = server.accept().expect("accept");
        Harness { raw, opaque: Some(rx.to_opaque()) }
    }
}

fn attach(r: &mut Rng, nchan: usize, nreg: usize, want_senders: bool, want_receivers: bool) -> (Vec<OsIpcChannel>, Vec<OsIpcSharedMemory>, Attached) {
    let mut chans = Vec::new();
    let mut att = Attached { chan_kinds: vec![], kept_rx: vec![], kept_tx: vec![], region_ids: vec![] };
    for _ in 0..nchan {
        let (tx, rx) = platform::channel().expect("platform channel");
        let sender = if want_senders && !want_receivers { true } else if want_receivers && !want_senders { false } else { r.chance(500) };
        if sender {
            chans.push(OsIpcChannel::Sender(tx));
            att.chan_kinds.push(true);
            att.kept_rx.push(Some(rx));
            att.kept_tx.push(None);
        } else {
            chans.push(OsIpcChannel::Receiver(rx));
            att.chan_kinds.push(false);
            att.kept_rx.push(None);
            att.kept_tx.push(Some(tx));
        }
    }
    let mut regs = Vec::new();
    for _ in 0..nreg {
        let id = r.next();
        let len = *r.pick(&[0usize, 1, 33, 4096, 5000]);
        regs.push(OsIpcSharedMemory::from_bytes(&body(id, len)));
        att.region_ids.push((id, len));
    }
    (chans, regs, att)
}

/// Probe what an Ok value handed out against the attached set, then check that everything else
/// was released.
fn check_handed(h: Handed, att: &Attached, nonce: u64, problems: &mut Vec<(String, Value)>) -> usize {
    let mut handed = 0;
    for (i, s) in h.senders.iter().enumerate() {
        handed += 1;
        let n = nonce + i as u64;
        let sent = s.send(n).is_ok();
        let want = bincode::serialize(&n).unwrap();
        let hit = att.kept_rx.iter().filter_map(|k| k.as_ref()).any(|rx| matches!(rx.try_recv(), Ok((d, _, _)) if d == want));
        if !(sent && hit) {
            // An attached *receiving* end referenced where the type expects a sender is still an
            // endpoint that was attached to this message (socket ends are symmetric); its identity
            // cannot be probed from here, so it only counts as unverifiable.
            let confusable = att.kept_tx.iter().any(|k| k.is_some());
            if !confusable {
                problems.push(("ok-value-holds-endpoint-that-was-not-attached".into(), json!({"position": i, "decoded_as": "sender", "send_ok": sent})));
            }
        }
    }
    for (i, rx) in h.receivers.iter().enumerate() {
        handed += 1;
        let n = nonce + 100 + i as u64;
        let want = bincode::serialize(&n).unwrap();
        let mut hit = false;
        for tx in att.kept_tx.iter().filter_map(|k| k.as_ref()) {
            let _ = tx.send(&want, vec![], vec![]);
        }
        // exactly the channel this receiver belongs to delivers; others stay queued for nobody
        if let Ok(v) = rx.try_recv() {
            hit = v == n;
        }
        if !hit {
            let confusable = att.kept_rx.iter().any(|k| k.is_some());
            if !confusable {
                problems.push(("ok-value-holds-endpoint-that-was-not-attached".into(), json!({"position": i, "decoded_as": "receiver"})));
            }
        }
    }
    for (i, g) in h.regions.iter().enumerate() {
        handed += 1;
        let ok = g.len() == 0 || att.region_ids.iter().any(|(id, len)| &g[..] == &body(*id, *len)[..]);
        if !ok {
            problems.push(("ok-value-holds-region-that-was-not-attached".into(), json!({"position": i, "len": g.len()})));
        }
    }
    handed
}

fn check_released(att: &Attached, problems: &mut Vec<(String, Value)>) {
    for (i, k) in att.kept_rx.iter().enumerate() {
        if let Some(rx) = k {
            // drain probe leftovers, then the end must be reported
            let mut closed = false;
            for _ in 0..8 {
                match rx.try_recv() {
                    Ok(_) => continue,
                    Err(e) => {
                        closed = e.channel_is_closed();
                        break;
                    },
                }
            }
            if !closed {
                problems.push(("attached-sender-kept-open".into(), json!({"attachment": i})));
            }
        }
    }
    for (i, k) in att.kept_tx.iter().enumerate() {
        if let Some(tx) = k {
            if tx.send(&[0u8; 8], vec![], vec![]).is_ok() {
                problems.push(("attached-receiver-kept-open".into(), json!({"attachment": i})));
            }
        }
    }
}

fn decode_as<T>(h: &mut Harness, via_set: bool, att: &Attached, nonce: u64, problems: &mut Vec<(String, Value)>) -> &'static str
where
    T: for<'de> Deserialize<'de> + Serialize + Inspect,
{
    let opaque = h.opaque.take().unwrap();
    if via_set {
        // through a receiver set: OpaqueIpcMessage::to
        let mut set = IpcReceiverSet::new().expect("set");
        // the set consumes the receiver; hand it a duplicate path: re-create the harness afterwards
        let _id = set.add_opaque(opaque).expect("add");
        let mut outcome = "err";
        match set.select() {
            Ok(evs) => {
                for ev in evs {
                    if let IpcSelectionResult::MessageReceived(_, om) = ev {
                        match om.to::<T>() {
                            Ok(v) => {
                                outcome = "ok";
                                let handed = v.hand();
                                check_handed(handed, att, nonce, problems);
                            },
                            Err(_) => outcome = "err",
                        }
                    }
                }
            },
            Err(e) => problems.push(("select-error".into(), json!({"error": e.to_string()}))),
        }
        drop(set);
        *h = Harness::new();
        outcome
    } else {
        let rx: IpcReceiver<T> = opaque.to();
        let res = rx.try_recv();
        h.opaque = Some(rx.to_opaque());
        match res {
            Ok(v) => {
                let handed = v.hand();
                check_handed(handed, att, nonce, problems);
                "ok"
            },
            Err(_) => "err",
        }
    }
}

fn dispatch(ty: usize, h: &mut Harness, via_set: bool, att: &Attached, nonce: u64, p: &mut Vec<(String, Value)>) -> &'static str {
    match ty {
        0 => decode_as::<u8>(h, via_set, att, nonce, p),
        1 => decode_as::<u64>(h, via_set, att, nonce, p),
        2 => decode_as::<i32>(h, via_set, att, nonce, p),
        3 => decode_as::<String>(h, via_set, att, nonce, p),
        4 => decode_as::<Vec<u8>>(h, via_set, att, nonce, p),
        5 => decode_as::<Vec<String>>(h, via_set, att, nonce, p),
        6 => decode_as::<Option<(u32, String)>>(h, via_set, att, nonce, p),
        7 => decode_as::<E3>(h, via_set, att, nonce, p),
        8 => decode_as::<IpcSender<u64>>(h, via_set, att, nonce, p),
        9 => decode_as::<IpcReceiver<u64>>(h, via_set, att, nonce, p),
        10 => decode_as::<IpcSharedMemory>(h, via_set, att, nonce, p),
        11 => decode_as::<Nested>(h, via_set, att, nonce, p),
        _ => decode_as::<(IpcSender<u64>, IpcSender<u64>)>(h, via_set, att, nonce, p),
    }
}

pub fn run(ctx: &Ctx) {
    let rep = &ctx.rep;
    let n = ctx.opt_u64("cases", if ctx.thorough { 12_000 } else { 400 });
    let mut h = Harness::new();
    // warm-up for the descriptor baseline
    {
        let mut p = Vec::new();
        let att = Attached { chan_kinds: vec![], kept_rx: vec![], kept_tx: vec![], region_ids: vec![] };
        h.raw.send(&[1u8], vec![], vec![]).unwrap();
        dispatch(0, &mut h, false, &att, 0, &mut p);
        h.raw.send(&[1u8], vec![], vec![]).unwrap();
        dispatch(0, &mut h, true, &att, 0, &mut p);
    }
    panic_quiet(true);
    for i in 0..n {
        let case = ctx.batch * 1_000_000 + i;
        if !ctx.want(case) {
            continue;
        }
        rep.raw(json!({"t":"journal","case":case}));
        let _g = op_begin("decode-injected-message", case);
        let mut r = Rng::derive(ctx.seed, 0xc16, case);
        let ty = r.below(14) as usize;
        if ty == 13 {
            nested_case(ctx, case, &mut r, &mut h);
            if rep.nviol.load(std::sync::atomic::Ordering::Relaxed) >= 60 {
                break;
            }
            continue;
        }
        let input_kind = r.below(6) as u8; // 0 random bytes, 1 valid, 2 mutated valid, 3 tampered indices, 4 valid encoding of another type, 5 receive-and-drop
        let nchan = if r.chance(300) { 0 } else { r.below(9) as usize };
        let nreg = if r.chance(400) { 0 } else { r.below(9 - nchan.min(8) as u64) as usize };
        let (chans, regs, att) = attach(&mut r, nchan, nreg, ty == 8 || ty == 12, ty == 9);
        let tamper = if input_kind == 3 { r.range(1, 4) as u8 } else { 0 };
        let bytes = match input_kind {
            0 => (0..r.below(4097)).map(|_| r.next() as u8).collect::<Vec<u8>>(),
            1 | 3 | 5 => valid_encoding(&mut r, ty, nchan as u64, nreg as u64, tamper),
            2 => {
                let v = valid_encoding(&mut r, ty, nchan as u64, nreg as u64, 0);
                mutate(&mut r, v)
            },
            _ => {
                let other = (ty + 1 + r.below(12) as usize) % 13;
                valid_encoding(&mut r, other, nchan as u64, nreg as u64, 0)
            },
        };
        let via_set = r.chance(300);
        let base_fds = fd_count();
        let mut problems: Vec<(String, Value)> = Vec::new();
        let blen = bytes.len();
        if let Err(e) = h.raw.send(&bytes, chans, regs) {
            rep.inconclusive(&format!("c16 case {}: raw injection failed: {}", case, e));
            continue;
        }
        let before_panics = panic_count();
        let outcome = if input_kind == 5 {
            // receive the message and drop it without decoding
            let opaque = h.opaque.take().unwrap();
            let mut set = IpcReceiverSet::new().expect("set");
            set.add_opaque(opaque).expect("add");
            let r2 = std::panic::catch_unwind(std::panic::AssertUnwindSafe(|| {
                let evs = set.select();
                drop(evs);
                drop(set);
            }));
            h = Harness::new();
            if r2.is_err() { "panic" } else { "dropped" }
        } else {
            let res = std::panic::catch_unwind(std::panic::AssertUnwindSafe(|| dispatch(ty, &mut h, via_set, &att, case << 16, &mut problems)));
            match res {
                Ok(o) => o,
                Err(_) => {
                    if h.opaque.is_none() {
                        h = Harness::new();
                    }
                    "panic"
                },
            }
        };
        if outcome == "panic" || panic_count() > before_panics {
            let p = take_panics();
            let at = p.last().cloned().unwrap_or_default();
            let loc = at.split(" at ").nth(1).and_then(|s| s.split(' ').next()).unwrap_or("?").replace("/repo/", "");
            let loc_file = loc.split(':').next().unwrap_or("?").to_string();
            let what = if at.contains("index out of bounds") { "index-out-of-range" } else if at.contains("unwrap()` on a `None`") { "used-twice" } else if at.contains("self.fd == -1") { "unused-attachment" } else if at.contains("result == 0") { "close-failed" } else { "other" };
            problems.push((format!("panic:{}:{}", loc_file, what), json!({"panic": at})));
        }
        if outcome != "panic" {
            check_released(&att, &mut problems);
            let now = fd_count();
            // kept counterparts are still open: they account for nchan descriptors
            let expect = base_fds - nchan - nreg;
            if now != expect && !via_set && input_kind != 5 {
                problems.push(("descriptors-not-released".into(), json!({"before_send": base_fds, "after": now, "expected": expect, "channels": nchan, "regions": nreg})));
            }
        }
        drop(att);
        let kind_name = ["random-bytes", "valid", "mutated-valid", "tampered-indices", "other-type", "receive-and-drop"][input_kind as usize];
        rep.case(&(ty, input_kind, tamper, nchan.min(3), nreg.min(3), via_set, blen.min(64) / 8), true);
        rep.stat("inputs", 1);
        rep.stat(&format!("outcome_{}", outcome), 1);
        rep.stat(&format!("input_{}", kind_name), 1);
        let base = json!({"case": case, "expected_type": TYPES[ty], "input": kind_name, "tamper": tamper, "bytes": blen, "channels": nchan, "regions": nreg,
            "via": if via_set {"receiver-set"} else {"try_recv"}, "outcome": outcome, "release": !cfg!(debug_assertions)});
        let mut seen = std::collections::BTreeSet::new();
        for (k, d) in problems {
            if seen.insert(k.clone()) {
                rep.violation(&format!("C16:{}", k), json!({"ctx": base, "problem": d}), ctx.replay(case));
            }
        }
        if i % 97 == 0 {
            rep.sample(json!({"ctx": base, "clean": seen.is_empty()}));
        }
        if rep.nviol.load(std::sync::atomic::Ordering::Relaxed) >= 60 {
            break;
        }
    }
    panic_quiet(false);
}
