//! C03 — disconnection is reported exactly when no sender can exist any more.
//!
//! A model-generated program (prog.rs) builds an arbitrary acyclic family of channels with
//! handles cloned, embedded, extracted and dropped (every step checked against the model,
//! including Empty-vs-Disconnected). The finale then races the release of every remaining
//! sender handle of one channel - direct handles, handles in transit inside undelivered
//! messages (released by dropping the carrying receiver), handles held by other threads and
//! by another process - against a blocked, timed or polling observer.

use crate::prog::{Bias, Interp, Model, PMsg, RxLoc};
use crate::util::*;
use crate::Ctx;
use ipc_channel::ipc::{self, IpcError, IpcOneShotServer, IpcReceiver, IpcSender, TryRecvError};
use serde::{Deserialize, Serialize};
use serde_json::json;
use std::sync::atomic::{AtomicU64, AtomicUsize, Ordering};
use std::sync::{Arc, Mutex};
use std::time::Duration;

#[derive(Serialize, Deserialize)]
enum Cmd {
    Hold(IpcSender<PMsg>),
    Exit(bool),
}

/// Child: hold sender handles until told to exit (cleanly or by SIGKILL).
pub fn role_holder(args: &[String]) -> i32 {
    let name = args[0].clone();
    let (ctx, crx) = ipc::channel::<Cmd>().unwrap();
    let boot: IpcSender<IpcSender<Cmd>> = IpcSender::connect(name).unwrap();
    boot.send(ctx).unwrap();
    drop(boot);
    let mut held = Vec::new();
    loop {
        match crx.recv() {
            Ok(Cmd::Hold(h)) => held.push(h),
            Ok(Cmd::Exit(kill)) => {
                if kill {
                    unsafe { libc::kill(libc::getpid(), libc::SIGKILL) };
                }
                return 0;
            },
            Err(_) => return 0,
        }
    }
}

fn contains(model: &Model, q: usize, c: usize, depth: usize) -> bool {
    if depth > 50 {
        return false;
    }
    model.chans[q].queue.iter().any(|m| m.senders.contains(&c) || m.receivers.iter().any(|&r| contains(model, r, c, depth + 1)))
}

enum Action {
    DropSender(IpcSender<PMsg>),
    DropCarrier(IpcReceiver<PMsg>),
    ChildExit(IpcSender<Cmd>, std::process::Child, bool),
}

#[derive(Debug)]
enum Obs {
    Msg(u64),
    Disconnected,
    Error(String),
}

pub fn run_case(ctx: &Ctx, case: u64) {
    let rep = &ctx.rep;
    let mut r = Rng::derive(ctx.seed, 0xc03, case);
    let bias = Bias { sets: r.chance(300), servers: false, regions: false, failing_ops: false, failing_serialize: true, max_chans: 6, ops: r.range(10, 80) as usize };
    let guard = op_begin("model-generated-history", case);
    let it = Interp::new(ctx.seed, case, bias);
    let (out, mut world, mut model) = it.run();
    drop(guard); // the finale has its own watcher
    rep.stat("program_ops", out.trace.len() as i64);
    if let Some(m) = out.mismatch {
        let kind = m.op.split(' ').next().unwrap_or("?").to_string();
        let why = if m.got == "disconnected" { "premature-disconnected" } else if m.expected == "disconnected" { "missing-disconnected" } else { "mismatch" };
        rep.violation(
            &format!("C03:program:{}:{}", why, kind),
            json!({"case": case, "step": m.step, "op": m.op, "model_expected": m.expected, "observed": m.got, "variant": variant(),
                "trace_tail": out.trace.iter().rev().take(10).collect::<Vec<_>>()}),
            ctx.replay(case),
        );
        rep.case(&(out.ops_hash, 0u8), true);
        return;
    }

    // ---- finale: choose the observed channel
    let held: Vec<usize> = (0..world.receivers.len()).filter(|&i| world.receivers[i].is_some()).collect();
    // prefer a channel that has sender handles in transit inside some other held queue
    let with_transit: Vec<usize> = held
        .iter()
        .cloned()
        .filter(|&i| {
            let c = world.receivers[i].as_ref().unwrap().1;
            held.iter().any(|&j| j != i && contains(&model, world.receivers[j].as_ref().unwrap().1, c, 0))
        })
        .collect();
    let (obs_rx, c) = if !with_transit.is_empty() && r.chance(800) {
        let i = *r.pick(&with_transit);
        world.receivers[i].take().unwrap()
    } else if !held.is_empty() && r.chance(800) {
        let i = *r.pick(&held);
        world.receivers[i].take().unwrap()
    } else {
        let (tx, rx) = must("channel", ipc::channel::<PMsg>());
        model.chans.push(crate::prog::MCh { queue: Default::default(), senders: 1, rx: RxLoc::Held, closed_reported: false });
        let c = model.chans.len() - 1;
        world.senders.push(Some((tx, c)));
        (rx, c)
    };
    // make sure there is something to release: add clones if none survive
    if model.chans[c].senders == 0 && r.chance(700) {
        // already disconnected: still a valid (degenerate) finale
    }
    let mut actions: Vec<Action> = Vec::new();
    let mut kinds: Vec<&'static str> = Vec::new();
    let mut sim = model.clone(); // what the planned releases leave behind, per the model
    // direct handles
    let mut direct: Vec<IpcSender<PMsg>> = Vec::new();
    for s in world.senders.iter_mut() {
        if s.as_ref().map(|x| x.1 == c).unwrap_or(false) {
            direct.push(s.take().unwrap().0);
        }
    }
    // extra clones, some moved through a channel, some into another process
    let mut child: Option<(IpcSender<Cmd>, std::process::Child)> = None;
    let mut child_handles = 0usize;
    if let Some(first) = direct.first().cloned() {
        for _ in 0..r.below(4) {
            model.chans[c].senders += 1;
            sim.chans[c].senders += 1;
            direct.push(first.clone());
        }
        if r.chance(400) {
            // in transit inside an undelivered message on a fresh carrier
            let (ktx, krx) = must("carrier", ipc::channel::<PMsg>());
            model.chans[c].senders += 1;
            sim.chans[c].senders += 1;
            let id = 0xC0_0000 + case;
            let _ = ktx.send(PMsg { id, data: crate::gen::Blob(vec![]), senders: vec![first.clone()], receivers: vec![], regions: vec![], fail: crate::prog::FailIf(false) });
            drop(ktx);
            actions.push(Action::DropCarrier(krx));
            kinds.push("drop-carrier(fresh)");
        }
        if is_os() && r.chance(300) {
            let (server, name) = must("server", IpcOneShotServer::<IpcSender<Cmd>>::new());
            let ch = std::process::Command::new(self_exe()).args(["role", "c03-holder", &name]).spawn().expect("spawn holder");
            let (_b, ctl) = server.accept().expect("accept holder");
            let n = r.range(1, 2);
            for _ in 0..n {
                model.chans[c].senders += 1;
                sim.chans[c].senders += 1;
                child_handles += 1;
                ctl.send(Cmd::Hold(first.clone())).expect("hand handle to child");
            }
            child = Some((ctl, ch));
        }
    }
    // handles in transit inside queues reachable from receivers the program still holds
    for slot in world.receivers.iter_mut() {
        let hit = slot.as_ref().map(|(_, q)| contains(&model, *q, c, 0)).unwrap_or(false);
        if hit {
            let (rx, q) = slot.take().unwrap();
            sim.drop_receiver(q);
            actions.push(Action::DropCarrier(rx));
            kinds.push("drop-carrier(program)");
        }
    }
    // carriers inside receiver sets: dropping the set releases them
    let mut set_carriers = Vec::new();
    for slot in world.sets.iter_mut() {
        let hit = slot.as_ref().map(|(_, members)| members.values().any(|&q| contains(&model, q, c, 0))).unwrap_or(false);
        if hit {
            for &q in slot.as_ref().unwrap().1.values() {
                sim.drop_receiver(q);
            }
            set_carriers.push(slot.take().unwrap());
        }
    }
    for d in direct {
        actions.push(Action::DropSender(d));
        kinds.push("drop-handle");
    }
    if let Some((ctl, ch)) = child {
        let kill = r.chance(500);
        actions.push(Action::ChildExit(ctl, ch, kill));
        kinds.push(if kill { "child-sigkill" } else { "child-exit" });
    }
    // every handle the model knows about must be covered by a planned release, otherwise the
    // finale would wait for a disconnection that cannot happen (harness limitation, not a verdict)
    let planned_direct = kinds.iter().filter(|k| **k == "drop-handle").count();
    let remaining = sim.chans[c].senders as i64;
    let in_carriers_fresh = kinds.iter().filter(|k| **k == "drop-carrier(fresh)").count();
    let accounted = planned_direct + in_carriers_fresh + child_handles;
    if remaining != accounted as i64 {
        rep.inconclusive(&format!("c03 case {}: model counts {} handles after carrier drops but {} are planned", case, remaining, accounted));
        return;
    }
    let queued: Vec<u64> = model.chans[c].queue.iter().map(|m| m.id).collect();
    let nact = actions.len() + set_carriers.len();

    // ---- observer
    let omode = r.below(4); // 0 recv, 1 try_recv poll, 2 try_recv_timeout short, 3 try_recv_timeout long
    let last_begin = Arc::new(AtomicU64::new(0)); // max call stamp over release actions
    let done = Arc::new(AtomicUsize::new(0));
    let obs_log: Arc<Mutex<Vec<(u64, Obs)>>> = Arc::new(Mutex::new(Vec::new()));
    let (ol, dn) = (obs_log.clone(), done.clone());
    let total_actions = nact;
    let settled = {
        let done = done.clone();
        move || done.load(Ordering::SeqCst) >= total_actions
    };
    // droppers: shuffle the actions over 1..4 threads
    let nthreads = r.range(1, 4) as usize;
    let mut buckets: Vec<Vec<(Action, u64)>> = (0..nthreads).map(|_| Vec::new()).collect();
    let mut acts: Vec<Action> = actions;
    r.shuffle(&mut acts);
    for a in acts {
        let k = r.below(nthreads as u64) as usize;
        let pause = if r.chance(500) { r.below(3000) } else { 0 };
        buckets[k].push((a, pause));
    }
    let set_pause = r.below(2000);
    let start_delay = r.below(5000);
    let mut handles = Vec::new();
    for b in buckets {
        let (lb, dn2) = (last_begin.clone(), done.clone());
        handles.push(std::thread::spawn(move || {
            std::thread::sleep(Duration::from_micros(start_delay));
            for (a, pause) in b {
                if pause > 0 {
                    std::thread::sleep(Duration::from_micros(pause));
                }
                lb.fetch_max(now_ns(), Ordering::SeqCst);
                match a {
                    Action::DropSender(s) => drop(s),
                    Action::DropCarrier(rx) => drop(rx),
                    Action::ChildExit(ctl, mut ch, kill) => {
                        let _ = ctl.send(Cmd::Exit(kill));
                        let _ = ch.wait();
                    },
                }
                dn2.fetch_add(1, Ordering::SeqCst);
            }
        }));
    }
    {
        let (lb, dn2) = (last_begin.clone(), done.clone());
        handles.push(std::thread::spawn(move || {
            for s in set_carriers {
                std::thread::sleep(Duration::from_micros(set_pause));
                lb.fetch_max(now_ns(), Ordering::SeqCst);
                drop(s);
                dn2.fetch_add(1, Ordering::SeqCst);
            }
        }));
    }
    let res = watch("c03-observer", 20_000, &settled, move || {
        let mut late_empty_since: Option<u64> = None;
        let mut empties = 0u64;
        loop {
            let r = match omode {
                0 => obs_rx.recv().map_err(|e| match e {
                    IpcError::Disconnected => None,
                    e => Some(format!("{:?}", e)),
                }),
                _ => {
                    let x = match omode {
                        1 => obs_rx.try_recv(),
                        2 => obs_rx.try_recv_timeout(Duration::from_millis(1)),
                        _ => obs_rx.try_recv_timeout(Duration::from_secs(30)),
                    };
                    match x {
                        Ok(m) => Ok(m),
                        Err(TryRecvError::Empty) => {
                            empties += 1;
                            if dn.load(Ordering::SeqCst) >= total_actions {
                                let now = now_ns();
                                let t = *late_empty_since.get_or_insert(now);
                                if now - t > 5_000_000_000 {
                                    ol.lock().unwrap().push((now, Obs::Error("Empty for 5 s after the last sender handle was released".into())));
                                    return empties;
                                }
                            }
                            if omode == 1 {
                                std::thread::yield_now();
                            }
                            continue;
                        },
                        Err(TryRecvError::IpcError(IpcError::Disconnected)) => Err(None),
                        Err(e) => Err(Some(format!("{:?}", e))),
                    }
                },
            };
            let t = now_ns();
            match r {
                Ok(m) => ol.lock().unwrap().push((t, Obs::Msg(m.id))),
                Err(None) => {
                    ol.lock().unwrap().push((t, Obs::Disconnected));
                    return empties;
                },
                Err(Some(e)) => {
                    ol.lock().unwrap().push((t, Obs::Error(e)));
                    return empties;
                },
            }
        }
    });
    let oname = ["recv", "try_recv", "try_recv_timeout(1ms)", "try_recv_timeout(30s)"][omode as usize];
    let base = json!({"case": case, "variant": variant(), "observer": oname,
        "release_actions": kinds, "dropper_threads": nthreads, "queued_before": queued.len(), "program_ops": out.trace.len()});
    let key = (out.ops_hash, omode, kinds.clone(), nthreads);
    match res {
        Watch::Done(empties) => {
            rep.stat("empty_results_while_connected", empties as i64);
        },
        Watch::Stuck(s) => {
            rep.violation(&format!("C03:finale:observer-stuck:{}", omode), json!({"ctx": base, "why": s}), ctx.replay(case));
            rep.case(&key, true);
            return;
        },
        Watch::Unknown(s) => {
            rep.inconclusive(&format!("c03 case {}: {}", case, s));
            return;
        },
        Watch::Panicked(s) => {
            rep.violation("C03:finale:panic", json!({"ctx": base, "panic": s}), ctx.replay(case));
            return;
        },
    }
    for h in handles {
        let _ = h.join();
    }
    let log = std::mem::take(&mut *obs_log.lock().unwrap());
    let lastb = last_begin.load(Ordering::SeqCst);
    let got_ids: Vec<u64> = log.iter().filter_map(|(_, o)| if let Obs::Msg(i) = o { Some(*i) } else { None }).collect();
    if got_ids != queued {
        rep.violation("C03:finale:backlog-differs", json!({"ctx": base, "expected_ids": queued, "got_ids": got_ids}), ctx.replay(case));
    }
    match log.last() {
        Some((t, Obs::Disconnected)) => {
            if *t < lastb {
                rep.violation(
                    "C03:finale:premature-disconnected",
                    json!({"ctx": base, "disconnected_returned_at": t, "a_release_began_at": lastb, "early_by_ns": lastb - t}),
                    ctx.replay(case),
                );
            }
            if nact > 0 {
                rep.stat_max("disconnect_latency_us", ((*t).saturating_sub(lastb) / 1000) as i64);
            }
        },
        Some((_, Obs::Error(e))) => {
            let sig = if e.starts_with("Empty for") { "C03:finale:never-disconnected" } else { "C03:finale:receive-error" };
            rep.violation(sig, json!({"ctx": base, "error": e}), ctx.replay(case));
        },
        other => {
            rep.violation("C03:finale:no-disconnect-observed", json!({"ctx": base, "last": format!("{:?}", other)}), ctx.replay(case));
        },
    }
    rep.case(&key, nact > 0);
    rep.stat("finales", 1);
    rep.stat("release_actions", nact as i64);
    rep.stat(&format!("observer_{}", omode), 1);
    for k in &kinds {
        rep.stat(&format!("action_{}", k), 1);
    }
    if case % 17 == 0 {
        rep.sample(json!({"ctx": base, "program_tail": out.trace.iter().rev().take(8).collect::<Vec<_>>(),
            "observer_log": log.iter().map(|(t, o)| format!("{} {:?}", t, o)).collect::<Vec<_>>(), "last_release_began": lastb}));
    }
    drop(world);
}

pub fn run(ctx: &Ctx) {
    let n = ctx.opt_u64("cases", if ctx.thorough { 1500 } else { 40 });
    for i in 0..n {
        let case = ctx.batch * 1_000_000 + i;
        if !ctx.want(case) {
            continue;
        }
        run_case(ctx, case);
        if ctx.rep.nviol.load(Ordering::Relaxed) >= 3 {
            break; // on a broken tree every further finale may cost a full grace period
        }
    }
}
