//! C10 — non-blocking and timed receives never block, miss a message, or poison.

use crate::c01::{sizes, Sizes};
use crate::gen::Blob;
use crate::util::*;
use crate::Ctx;
use ipc_channel::ipc::{self, IpcError, TryRecvError};
use serde_json::{json, Value};
use std::sync::atomic::{AtomicBool, AtomicI32, Ordering};
use std::sync::{Arc, Mutex};
use std::time::Duration;

type M = (u32, Blob);

fn mid(case: u64, seq: u32) -> u64 {
    (case << 24) ^ seq as u64 ^ 0xc100_0000_0000_0000
}

#[derive(Clone, Debug)]
enum SAct {
    Send { at_us: u64, len: usize },
    Drop { at_us: u64 },
}

#[derive(Clone, Debug)]
struct SRec {
    seq: u32,
    call: u64,
    ret: u64,
    ok: bool,
}

#[derive(Clone, Debug)]
enum ROp {
    Try { gap_us: u64 },
    Timeout { gap_us: u64, d_us: u64 },
}

#[derive(Clone, Debug)]
struct RRec {
    op: String,
    d_us: u64,
    call: u64,
    ret: u64,
    res: String, // "msg:<seq>", "empty", "disconnected", "error:<..>"
    body_ok: bool,
}

const MS: u64 = 1_000_000;

pub fn run_case(ctx: &Ctx, sz: &Sizes, case: u64) {
    let rep = &ctx.rep;
    let mut r = Rng::derive(ctx.seed, 0xc10, case);
    let ds: &[u64] = if ctx.thorough { &[0, 100, 900, 1000, 5000, 50_000, 300_000, 2_000_000] } else { &[0, 100, 900, 1000, 5000, 50_000, 300_000] };
    // sender schedule over a horizon of ~60 ms
    let nsend = r.below(8) as usize;
    let mut acts: Vec<SAct> = Vec::new();
    let allow_multi = is_os();
    for _ in 0..nsend {
        // (on the in-process transport "large" means several MiB: whatever it does with big payloads
        // then happens while the receiver is inside a short timed wait)
        let len = if allow_multi && r.chance(200) {
            sz.f1 + r.range(1, 2 * sz.f2 as u64) as usize
        } else if !allow_multi && !cfg!(miri) && r.chance(120) {
            (4 << 20) + r.range(1, 8 << 20) as usize
        } else {
            r.below(2000) as usize
        };
        acts.push(SAct::Send { at_us: r.below(60_000), len });
    }
    let drops = r.chance(600);
    acts.sort_by_key(|a| match a {
        SAct::Send { at_us, .. } => *at_us,
        SAct::Drop { at_us } => *at_us,
    });
    if drops {
        let last = acts.last().map(|a| match a { SAct::Send { at_us, .. } => *at_us, SAct::Drop { at_us } => *at_us }).unwrap_or(0);
        acts.push(SAct::Drop { at_us: last + r.below(30_000) });
    }
    // receiver ops
    let nops = r.range(2, 14) as usize;
    let mut ops: Vec<ROp> = Vec::new();
    let mut budget_us = 700_000u64;
    for _ in 0..nops {
        let gap = if r.chance(500) { 0 } else { r.below(8000) };
        if r.chance(450) {
            ops.push(ROp::Try { gap_us: gap });
        } else {
            let mut d = *r.pick(ds);
            if d > budget_us {
                d = 5000;
            }
            budget_us = budget_us.saturating_sub(d);
            ops.push(ROp::Timeout { gap_us: gap, d_us: d });
        }
    }
    let (tx, rx) = must("channel", ipc::channel::<M>());
    let slog: Arc<Mutex<Vec<SRec>>> = Arc::new(Mutex::new(Vec::new()));
    let drop_stamps: Arc<Mutex<Option<(u64, u64)>>> = Arc::new(Mutex::new(None));
    let sender_done = Arc::new(AtomicBool::new(false));
    let final_go = Arc::new(AtomicBool::new(false));
    let start = now_ns() + 2 * MS;
    let sender = {
        let (acts, slog, drop_stamps, sender_done, final_go) = (acts.clone(), slog.clone(), drop_stamps.clone(), sender_done.clone(), final_go.clone());
        std::thread::spawn(move || {
            let mut tx = Some(tx);
            let mut seq = 0u32;
            for a in acts {
                let at = match &a { SAct::Send { at_us, .. } => *at_us, SAct::Drop { at_us } => *at_us };
                let target = start + at * 1000;
                let now = now_ns();
                if target > now {
                    std::thread::sleep(Duration::from_nanos(target - now));
                }
                match a {
                    SAct::Send { len, .. } => {
                        let b = Blob(body(mid(case, seq), len));
                        let call = now_ns();
                        let ok = tx.as_ref().map(|t| t.send((seq, b)).is_ok()).unwrap_or(false);
                        let ret = now_ns();
                        slog.lock().unwrap().push(SRec { seq, call, ret, ok });
                        seq += 1;
                    },
                    SAct::Drop { .. } => {
                        let call = now_ns();
                        drop(tx.take());
                        *drop_stamps.lock().unwrap() = Some((call, now_ns()));
                    },
                }
            }
            sender_done.store(true, Ordering::SeqCst);
            // poison probe: keep the handle until asked to send the final message
            if let Some(t) = tx {
                while !final_go.load(Ordering::SeqCst) {
                    std::thread::sleep(Duration::from_micros(200));
                }
                let b = Blob(body(mid(case, 9999), 33));
                let call = now_ns();
                let ok = t.send((9999, b)).is_ok();
                slog.lock().unwrap().push(SRec { seq: 9999, call, ret: now_ns(), ok });
            }
        })
    };
    let rlog: Arc<Mutex<Vec<RRec>>> = Arc::new(Mutex::new(Vec::new()));
    let sd = sender_done.clone();
    let sd2 = sender_done.clone();
    let overrun = Arc::new(AtomicBool::new(false));
    let overrun2 = overrun.clone();
    let (rl, ops2) = (rlog.clone(), ops.clone());
    let res = watch("c10-receiver", 20_000, &move || sd.load(Ordering::SeqCst), move || {
        let wait = start.saturating_sub(now_ns());
        std::thread::sleep(Duration::from_nanos(wait));
        for op in ops2 {
            let (gap, d, name) = match &op {
                ROp::Try { gap_us } => (*gap_us, 0, "try_recv"),
                ROp::Timeout { gap_us, d_us } => (*gap_us, *d_us, "try_recv_timeout"),
            };
            if gap > 0 {
                std::thread::sleep(Duration::from_micros(gap));
            }
            rl.lock().unwrap().push(RRec { op: format!("{}-pending", name), d_us: d, call: now_ns(), ret: 0, res: String::new(), body_ok: true });
            let call = now_ns();
            let x = match &op {
                ROp::Try { .. } => rx.try_recv(),
                ROp::Timeout { d_us, .. } => rx.try_recv_timeout(Duration::from_micros(*d_us)),
            };
            let ret = now_ns();
            let (resd, body_ok) = match x {
                Ok((seq, blob)) => (format!("msg:{}", seq), body_diff(mid(case, seq), blob.0.len(), &blob.0).is_none()),
                Err(TryRecvError::Empty) => ("empty".to_string(), true),
                Err(TryRecvError::IpcError(IpcError::Disconnected)) => ("disconnected".to_string(), true),
                Err(e) => (format!("error:{:?}", e), true),
            };
            let mut l = rl.lock().unwrap();
            l.pop();
            l.push(RRec { op: name.to_string(), d_us: d, call, ret, res: resd, body_ok });
        }
        // epilogue: keep receiving (same oracle) until the sender has carried out its whole
        // schedule - a multi-packet send needs a reader to finish
        loop {
            let was_done = sd2.load(Ordering::SeqCst);
            rl.lock().unwrap().push(RRec { op: "try_recv_timeout-pending".into(), d_us: 2000, call: now_ns(), ret: 0, res: String::new(), body_ok: true });
            let call = now_ns();
            let x = rx.try_recv_timeout(Duration::from_micros(2000));
            let ret = now_ns();
            let (resd, body_ok) = match x {
                Ok((seq, blob)) => (format!("msg:{}", seq), body_diff(mid(case, seq), blob.0.len(), &blob.0).is_none()),
                Err(TryRecvError::Empty) => ("empty".to_string(), true),
                Err(TryRecvError::IpcError(IpcError::Disconnected)) => ("disconnected".to_string(), true),
                Err(e) => (format!("error:{:?}", e), true),
            };
            let stop = was_done && !resd.starts_with("msg:");
            let mut l = rl.lock().unwrap();
            l.pop();
            l.push(RRec { op: "try_recv_timeout".into(), d_us: 2000, call, ret, res: resd, body_ok });
            if stop {
                break;
            }
            if l.len() > 20_000 {
                overrun2.store(true, Ordering::SeqCst);
                break;
            }
        }
        rx
    });
    let base = json!({"case": case, "variant": variant(), "sender_actions": acts.iter().map(|a| format!("{:?}", a)).collect::<Vec<_>>(),
        "receiver_ops": ops.iter().map(|o| format!("{:?}", o)).collect::<Vec<_>>()});
    let mut problems: Vec<(String, Value)> = Vec::new();
    let rx = match res {
        Watch::Done(rx) => Some(rx),
        Watch::Stuck(s) => {
            let pending = rlog.lock().unwrap().last().cloned();
            problems.push(("call-blocks-forever".into(), json!({"why": s, "pending": format!("{:?}", pending)})));
            None
        },
        Watch::Unknown(s) => {
            rep.inconclusive(&format!("c10 case {}: {}", case, s));
            final_go.store(true, Ordering::SeqCst);
            return;
        },
        Watch::Panicked(s) => {
            problems.push(("panic".into(), json!({"panic": s})));
            None
        },
    };
    // the history is only complete once the sender has carried out its whole schedule; on a
    // starved machine that can take long, and an incomplete history decides nothing
    if overrun.load(Ordering::SeqCst) || !sender_done.load(Ordering::SeqCst) {
        let t0 = now_ns();
        while !sender_done.load(Ordering::SeqCst) && now_ns() - t0 < 30_000_000_000 {
            std::thread::sleep(Duration::from_millis(1));
        }
        if problems.is_empty() {
            rep.inconclusive(&format!("c10 case {}: sender schedule not finished when the receive sequence ended (machine starved?)", case));
            final_go.store(true, Ordering::SeqCst);
            let _ = sender.join();
            return;
        }
    }
    // ---- offline check of the stamped history
    let rl = rlog.lock().unwrap().clone();
    let sl: Vec<SRec> = slog.lock().unwrap().iter().filter(|s| s.seq != 9999).cloned().collect();
    let ds_ = *drop_stamps.lock().unwrap();
    let mut next = 0usize;
    for (i, o) in rl.iter().enumerate() {
        if o.op.ends_with("-pending") {
            continue;
        }
        let elapsed = o.ret - o.call;
        let pos = json!({"op_index": i, "op": o.op, "d_us": o.d_us, "result": o.res, "elapsed_us": elapsed / 1000});
        let deadline = o.call + o.d_us * 1000;
        if let Some(seqs) = o.res.strip_prefix("msg:") {
            let seq: usize = seqs.parse().unwrap_or(usize::MAX);
            if seq != next {
                problems.push(("wrong-message-order".into(), json!({"pos": pos, "expected_seq": next})));
            }
            if !o.body_ok {
                problems.push(("payload-differs".into(), pos.clone()));
            }
            if let Some(s) = sl.get(seq) {
                if s.call > o.ret {
                    problems.push(("message-before-it-was-sent".into(), pos.clone()));
                }
            }
            next = seq + 1;
        } else if o.res == "empty" {
            if o.op == "try_recv_timeout" {
                let floor_ms = o.d_us / 1000;
                if elapsed + MS < floor_ms * MS {
                    problems.push(("timeout-returned-early".into(), json!({"pos": pos, "requested_ms": floor_ms})));
                }
                rep.stat("timeout_empty_results", 1);
            }
            if let Some(s) = sl.get(next) {
                // completely sent before the call began, or (timed) at least 50 ms before the deadline
                let missed = s.ok && (s.ret < o.call || (o.op == "try_recv_timeout" && s.ret + 50 * MS < deadline));
                if missed {
                    problems.push(("empty-although-message-was-sent".into(), json!({"pos": pos, "seq": next, "send_returned_before_call_ns": o.call as i64 - s.ret as i64})));
                }
            } else if let Some((_dc, dr)) = ds_ {
                if dr < o.call || (o.op == "try_recv_timeout" && dr + 50 * MS < deadline) {
                    problems.push(("empty-although-disconnected".into(), json!({"pos": pos, "drop_returned_before_call_ns": o.call as i64 - dr as i64})));
                }
            }
        } else if o.res == "disconnected" {
            match ds_ {
                None => problems.push(("disconnected-while-sender-alive".into(), pos.clone())),
                Some((dc, _)) => {
                    if dc > o.ret {
                        problems.push(("disconnected-before-drop-began".into(), pos.clone()));
                    }
                },
            }
            if next < sl.iter().filter(|s| s.ok).count() {
                problems.push(("disconnected-before-last-message".into(), json!({"pos": pos, "delivered": next, "sent": sl.len()})));
            }
        } else {
            problems.push(("receive-error".into(), pos.clone()));
        }
        rep.stat(&format!("result_{}", o.res.split(':').next().unwrap_or("?")), 1);
    }
    // ---- poison probe: a blocking recv after the sequence must block and then deliver
    let mut poison_probe = "skipped";
    if let (Some(rx), None) = (rx, ds_) {
        // in half of the cases the receiver first moves through another channel: the blocking
        // receive is then issued on the handle that comes out at the other end
        let rx = if r.chance(500) {
            let (mtx, mrx) = must("channel", ipc::channel::<ipc::IpcReceiver<M>>());
            must("move receiver", mtx.send(rx));
            rep.stat("poison_probe_on_transferred_receiver", 1);
            must("take receiver", mrx.recv())
        } else {
            rx
        };
        // drain what the sequence left behind
        let sent_ok = sl.iter().filter(|s| s.ok).count();
        let mut drained_ok = true;
        while next < sent_ok {
            match rx.recv() {
                Ok((seq, _)) if seq as usize == next => next += 1,
                other => {
                    problems.push(("blocking-recv-after-nonblocking-calls".into(), json!({"expected_seq": next, "got": format!("{:?}", other.map(|m| m.0))})));
                    drained_ok = false;
                    break;
                },
            }
        }
        if drained_ok {
            let tid = Arc::new(AtomicI32::new(0));
            let t2 = tid.clone();
            let h = std::thread::spawn(move || {
                t2.store(gettid(), Ordering::SeqCst);
                let call = now_ns();
                let x = rx.recv();
                (call, now_ns(), x.map(|m| m.0).map_err(|e| format!("{:?}", e)))
            });
            while tid.load(Ordering::SeqCst) == 0 {
                std::thread::yield_now();
            }
            let blocked = if is_os() { wait_in_syscall(tid.load(Ordering::SeqCst), &[47], 3000) } else { std::thread::sleep(Duration::from_millis(3)); true };
            final_go.store(true, Ordering::SeqCst);
            let (_c, ret, x) = h.join().expect("probe thread");
            let final_call = slog.lock().unwrap().iter().find(|s| s.seq == 9999).map(|s| s.call).unwrap_or(u64::MAX);
            match x {
                Ok(9999) => {
                    if !blocked && ret < final_call {
                        problems.push(("blocking-recv-returned-before-send".into(), json!({})));
                    }
                    poison_probe = if blocked { "blocked-then-delivered" } else { "delivered" };
                },
                other => {
                    problems.push(("blocking-recv-poisoned".into(), json!({"got": format!("{:?}", other), "observed_blocked": blocked})));
                    poison_probe = "failed";
                },
            }
        }
    }
    final_go.store(true, Ordering::SeqCst);
    let _ = sender.join();
    let shape: Vec<String> = rl.iter().map(|o| format!("{}:{}:{}", o.op, o.d_us, o.res.split(':').next().unwrap_or(""))).collect();
    rep.case(&shape, rl.len() >= 2);
    rep.stat("receive_calls", rl.len() as i64);
    rep.stat(&format!("poison_probe_{}", poison_probe), 1);
    let mut seen = std::collections::BTreeSet::new();
    for (k, d) in problems {
        if seen.insert(k.clone()) {
            rep.violation(&format!("C10:{}", k), json!({"ctx": base, "problem": d}), ctx.replay(case));
        }
    }
    if case % 19 == 0 {
        rep.sample(json!({"ctx": base, "history": rl.iter().map(|o| json!({"op": o.op, "d_us": o.d_us, "res": o.res, "elapsed_us": (o.ret.saturating_sub(o.call)) / 1000})).collect::<Vec<_>>(),
            "poison_probe": poison_probe}));
    }
}

pub fn run(ctx: &Ctx) {
    let sz = sizes();
    let n = ctx.opt_u64("cases", if ctx.thorough { 600 } else { 45 });
    for i in 0..n {
        let case = ctx.batch * 1_000_000 + i;
        if !ctx.want(case) {
            continue;
        }
        // (a probe or sender thread that never comes back ends the batch through the per-case
        // watchdog instead of hanging it)
        let _g = op_begin("receive-sequence", case);
        run_case(ctx, &sz, case);
        drop(_g);
        if ctx.rep.nviol.load(Ordering::Relaxed) >= 4 {
            break;
        }
    }
}
