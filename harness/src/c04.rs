//! C04 — endpoints sent inside messages keep their identity, position and backlog.
//!
//! A recursive `Node` value mixes plain data with endpoint leaves of every kind and regions.
//! For every embedded endpoint the harness keeps the counterpart; after 1..5 hops through echo
//! relays (threads and exec'd processes), with messages put on the travelling receivers before,
//! between and after hops, every leaf is identity-probed with unique nonces.

use crate::c01::{sizes, Sizes};
use crate::gen::{gen_val, same, Blob, Val};
use crate::util::*;
use crate::Ctx;
use ipc_channel::ipc::{
    self, IpcBytesReceiver, IpcBytesSender, IpcOneShotServer, IpcReceiver, IpcSender, IpcSharedMemory, OpaqueIpcReceiver, OpaqueIpcSender,
    TryRecvError,
};
use serde::{Deserialize, Serialize};
use serde_json::json;
use std::collections::BTreeMap;
use std::sync::Arc;

#[derive(Serialize, Deserialize)]
pub enum Node {
    Data(Val),
    Tx(IpcSender<u64>),
    Rx(IpcReceiver<u64>),
    OTx(OpaqueIpcSender),
    ORx(OpaqueIpcReceiver),
    BTx(IpcBytesSender),
    BRx(IpcBytesReceiver),
    ArcRx(SharedRx),
    Shm(IpcSharedMemory),
    Seq(Vec<Node>),
    Opt(Option<Box<Node>>),
    Pair(Box<(Node, Node)>),
    Map(BTreeMap<String, Node>),
    Pad(Blob),
}

/// `Arc<IpcReceiver>` (serde "rc"): the harness keeps a second reference to the handle the
/// receiver was sent from. Only ever touched by one thread at a time, hence the Send wrapper.
#[derive(Serialize, Deserialize)]
pub struct SharedRx(pub Arc<IpcReceiver<u64>>);
unsafe impl Send for SharedRx {}

pub enum Kept {
    RxOf(IpcReceiver<u64>),
    TxOf(IpcSender<u64>, Vec<u64>),
    BRxOf(IpcBytesReceiver),
    BTxOf(IpcBytesSender, Vec<u64>),
    Shm(u64, usize),
    Data(Vec<u8>),
    Pad(usize),
}

const KINDS: [&str; 8] = ["Tx", "Rx", "OTx", "ORx", "BTx", "BRx", "ArcRx", "Shm"];

struct Builder<'a> {
    r: &'a mut Rng,
    kept: Vec<Kept>,
    kinds: Vec<&'static str>,
    nonce: u64,
    retained: Vec<Arc<IpcReceiver<u64>>>,
}

impl<'a> Builder<'a> {
    fn nonce(&mut self) -> u64 {
        self.nonce += 1;
        self.nonce
    }
    fn leaf(&mut self, kind: usize) -> Node {
        self.kinds.push(KINDS[kind]);
        match kind {
            0 => {
                let (tx, rx) = must("channel", ipc::channel::<u64>());
                self.kept.push(Kept::RxOf(rx));
                Node::Tx(tx)
            },
            1 | 3 | 6 => {
                let (tx, rx) = must("channel", ipc::channel::<u64>());
                let n = self.r.below(5);
                let mut backlog = Vec::new();
                for _ in 0..n {
                    let x = self.nonce();
                    tx.send(x).expect("backlog send");
                    backlog.push(x);
                }
                self.kept.push(Kept::TxOf(tx, backlog));
                match kind {
                    1 => Node::Rx(rx),
                    3 => Node::ORx(rx.to_opaque()),
                    _ => {
                        let a = Arc::new(rx);
                        self.retained.push(a.clone());
                        Node::ArcRx(SharedRx(a))
                    },
                }
            },
            2 => {
                let (tx, rx) = must("channel", ipc::channel::<u64>());
                self.kept.push(Kept::RxOf(rx));
                Node::OTx(tx.to_opaque())
            },
            4 => {
                let (tx, rx) = must("bytes channel", ipc::bytes_channel());
                self.kept.push(Kept::BRxOf(rx));
                Node::BTx(tx)
            },
            5 => {
                let (tx, rx) = must("bytes channel", ipc::bytes_channel());
                let n = self.r.below(4);
                let mut backlog = Vec::new();
                for _ in 0..n {
                    let x = self.nonce();
                    tx.send(&x.to_le_bytes()).expect("backlog send");
                    backlog.push(x);
                }
                self.kept.push(Kept::BTxOf(tx, backlog));
                Node::BRx(rx)
            },
            _ => {
                let cid = self.nonce();
                let len = *self.r.pick(&[1usize, 17, 4096, 5000]);
                self.kept.push(Kept::Shm(cid, len));
                Node::Shm(IpcSharedMemory::from_bytes(&body(cid, len)))
            },
        }
    }
    fn data(&mut self) -> Node {
        let v = gen_val(self.r, 2);
        self.kept.push(Kept::Data(bincode::serialize(&v).unwrap()));
        self.kinds.push("Data");
        Node::Data(v)
    }
    /// Wrap the given leaves, in order, into a random nested container structure.
    fn nest(&mut self, mut leaves: Vec<Node>, depth: u32) -> Node {
        if leaves.len() == 1 && (depth > 3 || self.r.chance(500)) {
            let l = leaves.pop().unwrap();
            return match self.r.below(3) {
                0 => Node::Opt(Some(Box::new(l))),
                _ => l,
            };
        }
        if leaves.is_empty() {
            return Node::Opt(None);
        }
        match self.r.below(3) {
            0 if leaves.len() >= 2 => {
                let cut = self.r.range(1, leaves.len() as u64 - 1) as usize;
                let right = leaves.split_off(cut);
                let a = self.nest(leaves, depth + 1);
                let b = self.nest(right, depth + 1);
                Node::Pair(Box::new((a, b)))
            },
            1 => {
                // map: keys sorted so iteration order == insertion order
                let mut m = BTreeMap::new();
                for (i, l) in leaves.into_iter().enumerate() {
                    m.insert(format!("k{:04}", i), l);
                }
                Node::Map(m)
            },
            _ => {
                // sequence of groups
                let mut out = Vec::new();
                while !leaves.is_empty() {
                    let take = self.r.range(1, leaves.len().min(6) as u64) as usize;
                    let rest = leaves.split_off(take);
                    let group = std::mem::replace(&mut leaves, rest);
                    if group.len() == 1 || depth > 3 {
                        out.extend(group);
                    } else {
                        out.push(self.nest(group, depth + 1));
                    }
                }
                Node::Seq(out)
            },
        }
    }
}

fn shape(n: &Node, out: &mut String) {
    match n {
        Node::Data(_) => out.push('d'),
        Node::Tx(_) => out.push('T'),
        Node::Rx(_) => out.push('R'),
        Node::OTx(_) => out.push('t'),
        Node::ORx(_) => out.push('r'),
        Node::BTx(_) => out.push('B'),
        Node::BRx(_) => out.push('b'),
        Node::ArcRx(_) => out.push('A'),
        Node::Shm(_) => out.push('M'),
        Node::Pad(b) => {
            out.push('P');
            out.push_str(&b.0.len().to_string());
        },
        Node::Opt(None) => out.push('-'),
        Node::Opt(Some(x)) => {
            out.push('?');
            shape(x, out)
        },
        Node::Seq(v) => {
            out.push('[');
            for x in v {
                shape(x, out)
            }
            out.push(']');
        },
        Node::Pair(p) => {
            out.push('(');
            shape(&p.0, out);
            shape(&p.1, out);
            out.push(')');
        },
        Node::Map(m) => {
            out.push('{');
            for x in m.values() {
                shape(x, out)
            }
            out.push('}');
        },
    }
}

fn leaves_of(n: Node, out: &mut Vec<Node>) {
    match n {
        Node::Opt(None) => {},
        Node::Opt(Some(x)) => leaves_of(*x, out),
        Node::Seq(v) => v.into_iter().for_each(|x| leaves_of(x, out)),
        Node::Pair(p) => {
            let (a, b) = *p;
            leaves_of(a, out);
            leaves_of(b, out);
        },
        Node::Map(m) => m.into_values().for_each(|x| leaves_of(x, out)),
        leaf => out.push(leaf),
    }
}

// ------------------------------------------------------------------ relays

fn echo_loop(rx: IpcReceiver<Node>, tx: IpcSender<Node>) {
    while let Ok(n) = rx.recv() {
        if tx.send(n).is_err() {
            break;
        }
    }
}

pub fn role_relay(args: &[String]) -> i32 {
    let name = args[0].clone();
    let (in_tx, in_rx) = ipc::channel::<Node>().unwrap();
    let (out_tx, out_rx) = ipc::channel::<Node>().unwrap();
    let boot: IpcSender<(IpcSender<Node>, IpcReceiver<Node>)> = IpcSender::connect(name).unwrap();
    boot.send((in_tx, out_rx)).unwrap();
    drop(boot);
    echo_loop(in_rx, out_tx);
    0
}

pub struct Relay {
    pub tx: IpcSender<Node>,
    pub rx: IpcReceiver<Node>,
    pub child: Option<std::process::Child>,
    pub thread: Option<std::thread::JoinHandle<()>>,
}

impl Relay {
    pub fn thread() -> Relay {
        let (in_tx, in_rx) = must("channel", ipc::channel::<Node>());
        let (out_tx, out_rx) = must("channel", ipc::channel::<Node>());
        let t = std::thread::spawn(move || echo_loop(in_rx, out_tx));
        Relay { tx: in_tx, rx: out_rx, child: None, thread: Some(t) }
    }
    pub fn process() -> Relay {
        let (server, name) = must("server", IpcOneShotServer::<(IpcSender<Node>, IpcReceiver<Node>)>::new());
        let child = std::process::Command::new(self_exe()).args(["role", "c04-relay", &name]).spawn().expect("spawn relay");
        let (_b, (tx, rx)) = server.accept().expect("accept relay");
        Relay { tx, rx, child: Some(child), thread: None }
    }
    pub fn finish(self) {
        let Relay { tx, rx, child, thread } = self;
        drop(tx);
        drop(rx);
        if let Some(mut c) = child {
            let _ = c.wait();
        }
        if let Some(t) = thread {
            let _ = t.join();
        }
    }
}

// ------------------------------------------------------------------ one case

fn try_once<T>(f: impl Fn() -> Result<T, TryRecvError>) -> Result<Option<T>, String> {
    match f() {
        Ok(v) => Ok(Some(v)),
        Err(TryRecvError::Empty) => Ok(None),
        Err(e) => Err(format!("{:?}", e)),
    }
}

pub fn run_case(ctx: &Ctx, sz: &Sizes, relays: &[Relay], case: u64) {
    let rep = &ctx.rep;
    let mut r = Rng::derive(ctx.seed, 0xc04, case);
    let multi = r.chance(350);
    let max_ep = if multi { 62 } else { 63 };
    let n_ep = match r.below(10) {
        0 => 0,
        1 => max_ep,
        2 => r.range(30, max_ep),
        _ => r.range(1, 12),
    } as usize;
    let n_shm = if n_ep + 8 <= max_ep as usize { r.below(9) as usize } else { 0 }.min(max_ep as usize + 1 - n_ep);
    let n_data = r.below(6) as usize;
    let mut rb = r.clone();
    let mut b = Builder { r: &mut rb, kept: vec![], kinds: vec![], nonce: case << 20, retained: vec![] };
    // leaf order = DFS order of the final tree
    let mut plan: Vec<u8> = Vec::new();
    for _ in 0..n_ep {
        let k = b.r.below(100);
        plan.push(match k {
            0..=24 => 0,
            25..=44 => 1,
            45..=56 => 2,
            57..=66 => 3,
            67..=80 => 4,
            81..=94 => 5,
            _ => {
                if is_os() {
                    6
                } else {
                    1
                }
            },
        });
    }
    for _ in 0..n_shm {
        plan.push(7);
    }
    for _ in 0..n_data {
        plan.push(100);
    }
    b.r.shuffle(&mut plan);
    let mut leaves = Vec::new();
    for k in plan {
        if k == 100 {
            leaves.push(b.data());
        } else {
            leaves.push(b.leaf(k as usize));
        }
    }
    if multi {
        let pad = sz.f1 + b.r.range(1, 3 * sz.f2 as u64) as usize;
        b.kept.push(Kept::Pad(pad));
        b.kinds.push("Pad");
        let pos = b.r.below(leaves.len() as u64 + 1) as usize;
        // kept/kinds must follow leaf order: insert at the same position
        let k = b.kept.pop().unwrap();
        let kd = b.kinds.pop().unwrap();
        b.kept.insert(pos, k);
        b.kinds.insert(pos, kd);
        leaves.insert(pos, Node::Pad(Blob(body(case, pad))));
    }
    let tree = b.nest(leaves, 0);
    let Builder { mut kept, kinds, retained, mut nonce, .. } = b;
    let mut sent_shape = String::new();
    shape(&tree, &mut sent_shape);

    // hops
    let hops = r.range(1, 5) as usize;
    let mut node = tree;
    let mut hop_kinds = Vec::new();
    for h in 0..hops {
        let relay = &relays[r.below(relays.len() as u64) as usize];
        hop_kinds.push(if relay.child.is_some() { "process" } else { "thread" });
        if let Err(e) = relay.tx.send(node) {
            rep.violation("C04:hop-send-failed", json!({"case": case, "hop": h, "error": e.to_string(), "shape": sent_shape}), ctx.replay(case));
            return;
        }
        node = match relay.rx.recv() {
            Ok(n) => n,
            Err(e) => {
                rep.violation("C04:hop-receive-failed", json!({"case": case, "hop": h, "error": format!("{:?}", e), "shape": sent_shape}), ctx.replay(case));
                return;
            },
        };
        // between hops: more traffic on the travelling receivers
        for k in kept.iter_mut() {
            match k {
                Kept::TxOf(tx, backlog) if r.chance(300) => {
                    nonce += 1;
                    if tx.send(nonce).is_ok() {
                        backlog.push(nonce);
                    } else {
                        rep.violation("C04:send-to-travelling-receiver-failed", json!({"case": case, "hop": h}), ctx.replay(case));
                    }
                },
                Kept::BTxOf(tx, backlog) if r.chance(300) => {
                    nonce += 1;
                    if tx.send(&nonce.to_le_bytes()).is_ok() {
                        backlog.push(nonce);
                    } else {
                        rep.violation("C04:send-to-travelling-receiver-failed", json!({"case": case, "hop": h}), ctx.replay(case));
                    }
                },
                _ => {},
            }
        }
    }
    // fence: a relay drops its copy of the value only after its send returned; once an empty value
    // has made the round trip through every relay, no relay can still hold one of our endpoints
    for relay in relays {
        let ok = relay.tx.send(Node::Opt(None)).is_ok() && relay.rx.recv().is_ok();
        if !ok {
            rep.inconclusive(&format!("c04 case {}: relay fence failed", case));
            return;
        }
    }
    // retained Arc handles must not receive anything any more
    for a in &retained {
        if let Ok(v) = a.try_recv() {
            rep.violation("C04:origin-handle-still-receives", json!({"case": case, "value": v}), ctx.replay(case));
        }
    }

    let mut got_shape = String::new();
    shape(&node, &mut got_shape);
    let ctxj = json!({"case": case, "variant": variant(), "endpoints": n_ep, "regions": n_shm, "multi_packet": multi, "hops": hop_kinds,
        "shape": if sent_shape.len() > 300 { format!("{}...", &sent_shape[..300]) } else { sent_shape.clone() }});
    rep.case(&(sent_shape.clone(), multi, hop_kinds.clone()), n_ep + n_shm > 0);
    rep.stat("values", 1);
    rep.stat("endpoints", n_ep as i64);
    rep.stat("hops", hops as i64);
    rep.stat("process_hops", hop_kinds.iter().filter(|k| **k == "process").count() as i64);
    rep.stat_max("endpoints_in_one_message", (n_ep + n_shm) as i64);
    if multi {
        rep.stat("multi_packet_values", 1);
    }
    if got_shape != sent_shape {
        rep.violation("C04:shape-differs", json!({"ctx": ctxj, "got_shape": got_shape}), ctx.replay(case));
        return;
    }
    let mut got_leaves = Vec::new();
    leaves_of(node, &mut got_leaves);
    if got_leaves.len() != kept.len() {
        rep.violation("C04:leaf-count-differs", json!({"ctx": ctxj, "got": got_leaves.len(), "sent": kept.len()}), ctx.replay(case));
        return;
    }
    // probe every leaf; keep received endpoints alive until all probes are done
    let mut problems: Vec<(String, serde_json::Value)> = Vec::new();
    let mut alive_tx: Vec<IpcSender<u64>> = Vec::new();
    let mut alive_btx: Vec<IpcBytesSender> = Vec::new();
    let mut probes = 0i64;
    for (i, (leaf, k)) in got_leaves.into_iter().zip(kept.iter_mut()).enumerate() {
        let pos = json!({"leaf": i, "kind": kinds[i]});
        match (leaf, k) {
            (Node::Data(v), Kept::Data(bytes)) => {
                if bincode::serialize(&v).unwrap() != *bytes {
                    problems.push(("data-differs".into(), pos));
                }
            },
            (Node::Pad(b), Kept::Pad(len)) => {
                if let Some(d) = body_diff(case, *len, &b.0) {
                    problems.push(("padding-differs".into(), json!({"pos": pos, "diff": d})));
                }
            },
            (Node::Shm(g), Kept::Shm(cid, len)) => {
                if &g[..] != &body(*cid, *len)[..] {
                    problems.push(("region-differs".into(), json!({"pos": pos, "len": g.len(), "want": len})));
                }
            },
            (Node::Tx(tx), Kept::RxOf(rx)) => {
                nonce += 1;
                probes += 1;
                if let Err(e) = tx.send(nonce) {
                    problems.push(("received-sender-cannot-send".into(), json!({"pos": pos, "error": e.to_string()})));
                }
                match try_once(|| rx.try_recv()) {
                    Ok(Some(v)) if v == nonce => {},
                    other => problems.push(("sender-identity".into(), json!({"pos": pos, "sent_nonce": nonce, "kept_receiver_got": format!("{:?}", other)}))),
                }
                alive_tx.push(tx);
            },
            (Node::OTx(otx), Kept::RxOf(rx)) => {
                let tx: IpcSender<u64> = otx.to();
                nonce += 1;
                probes += 1;
                if let Err(e) = tx.send(nonce) {
                    problems.push(("received-sender-cannot-send".into(), json!({"pos": pos, "error": e.to_string()})));
                }
                match try_once(|| rx.try_recv()) {
                    Ok(Some(v)) if v == nonce => {},
                    other => problems.push(("sender-identity".into(), json!({"pos": pos, "sent_nonce": nonce, "kept_receiver_got": format!("{:?}", other)}))),
                }
                alive_tx.push(tx);
            },
            (Node::BTx(tx), Kept::BRxOf(rx)) => {
                nonce += 1;
                probes += 1;
                if let Err(e) = tx.send(&nonce.to_le_bytes()) {
                    problems.push(("received-sender-cannot-send".into(), json!({"pos": pos, "error": e.to_string()})));
                }
                match try_once(|| rx.try_recv()) {
                    Ok(Some(v)) if v == nonce.to_le_bytes() => {},
                    other => problems.push(("sender-identity".into(), json!({"pos": pos, "sent_nonce": nonce, "kept_receiver_got": format!("{:?}", other.map(|o| o.map(|v| v.len())))}))),
                }
                alive_btx.push(tx);
            },
            (leaf @ (Node::Rx(_) | Node::ORx(_) | Node::ArcRx(_)), Kept::TxOf(tx, backlog)) => {
                let rx: IpcReceiver<u64> = match leaf {
                    Node::Rx(rx) => rx,
                    Node::ORx(o) => o.to(),
                    Node::ArcRx(a) => match Arc::try_unwrap(a.0) {
                        Ok(rx) => rx,
                        Err(_) => {
                            problems.push(("arc-receiver-shared".into(), pos));
                            continue;
                        },
                    },
                    _ => unreachable!(),
                };
                nonce += 1;
                probes += 1;
                let after = nonce;
                if let Err(e) = tx.send(after) {
                    problems.push(("send-to-transferred-receiver-failed".into(), json!({"pos": pos, "error": e.to_string()})));
                }
                let mut got = Vec::new();
                loop {
                    match try_once(|| rx.try_recv()) {
                        Ok(Some(v)) => got.push(v),
                        Ok(None) => break,
                        Err(e) => {
                            problems.push(("transferred-receiver-error".into(), json!({"pos": pos, "error": e})));
                            break;
                        },
                    }
                }
                let mut want = backlog.clone();
                want.push(after);
                if got != want {
                    problems.push(("receiver-backlog".into(), json!({"pos": pos, "want": want, "got": got})));
                }
            },
            (Node::BRx(rx), Kept::BTxOf(tx, backlog)) => {
                nonce += 1;
                probes += 1;
                let after = nonce;
                if let Err(e) = tx.send(&after.to_le_bytes()) {
                    problems.push(("send-to-transferred-receiver-failed".into(), json!({"pos": pos, "error": e.to_string()})));
                }
                let mut got = Vec::new();
                loop {
                    match try_once(|| rx.try_recv()) {
                        Ok(Some(v)) => got.push(u64::from_le_bytes(v[..].try_into().unwrap_or([0; 8]))),
                        Ok(None) => break,
                        Err(e) => {
                            problems.push(("transferred-receiver-error".into(), json!({"pos": pos, "error": e})));
                            break;
                        },
                    }
                }
                let mut want = backlog.clone();
                want.push(after);
                if got != want {
                    problems.push(("receiver-backlog".into(), json!({"pos": pos, "want": want, "got": got})));
                }
            },
            (_, _) => problems.push(("leaf-kind-differs".into(), pos)),
        }
    }
    // nothing else may have arrived on any kept receiver (a nonce delivered to the wrong channel)
    for (i, k) in kept.iter().enumerate() {
        match k {
            Kept::RxOf(rx) => {
                if let Ok(Some(v)) = try_once(|| rx.try_recv()) {
                    problems.push(("stray-message".into(), json!({"leaf": i, "value": v})));
                }
            },
            Kept::BRxOf(rx) => {
                if let Ok(Some(v)) = try_once(|| rx.try_recv()) {
                    problems.push(("stray-message".into(), json!({"leaf": i, "len": v.len()})));
                }
            },
            _ => {},
        }
    }
    // after the received senders are gone the kept receivers disconnect
    drop(alive_tx);
    drop(alive_btx);
    for (i, k) in kept.iter().enumerate() {
        if let Kept::RxOf(rx) = k {
            match rx.try_recv() {
                Err(TryRecvError::IpcError(ipc::IpcError::Disconnected)) => {},
                other => problems.push(("not-disconnected-after-drop".into(), json!({"leaf": i, "got": format!("{:?}", other)}))),
            }
        }
    }
    rep.stat("identity_probes", probes);
    let mut seen = std::collections::BTreeSet::new();
    for (kind, d) in problems {
        if seen.insert(kind.clone()) {
            rep.violation(&format!("C04:{}", kind), json!({"ctx": ctxj, "problem": d}), ctx.replay(case));
        }
    }
    if case % 11 == 0 {
        rep.sample(json!({"ctx": ctxj, "leaf_kinds": kinds.iter().take(40).collect::<Vec<_>>(), "probes": probes, "all_probes_ok": seen.is_empty()}));
    }
    let _ = same::<u8>;
}

/// A receiver embedded through a shared pointer (`Arc<IpcReceiver<T>>`, serde's `rc`): the only way
/// for a program to still hold "the handle it was sent from" after the send. That handle must
/// receive nothing further (an error or a panic is "nothing"); the transferred receiver yields
/// every message queued before and sent after the transfer, in order.
fn shared_pointer_case(ctx: &Ctx, case: u64) {
    use ipc_channel::ipc::{IpcReceiver, IpcSender};
    let rep = &ctx.rep;
    let mut r = Rng::derive(ctx.seed, 0xc04a, case);
    let (tx, rx): (IpcSender<u32>, IpcReceiver<u32>) = must("channel", ipc::channel());
    let shared = Arc::new(rx);
    let pre = r.below(10) as u32;
    let post = r.below(10) as u32;
    for s in 0..pre {
        must("queue before", tx.send(s));
    }
    let (ctx_tx, ctx_rx) = must("carrier", ipc::channel::<(u8, Arc<IpcReceiver<u32>>)>());
    must("send receiver by shared pointer", ctx_tx.send((7, shared.clone())));
    for s in pre..pre + post {
        must("send after", tx.send(s));
    }
    let moved = match ctx_rx.recv() {
        Ok((7, m)) => m,
        other => {
            rep.violation("C04:shared-pointer:carrier-message-damaged", json!({"case": case, "got": format!("{:?}", other.map(|x| x.0))}), ctx.replay(case));
            return;
        },
    };
    let mut problems: Vec<(String, serde_json::Value)> = Vec::new();
    // the handle the receiver was sent from
    panic_quiet(true);
    let kept = std::panic::catch_unwind(std::panic::AssertUnwindSafe(|| shared.try_recv()));
    let _ = take_panics();
    panic_quiet(false);
    let kept_desc = match &kept {
        Ok(Ok(v)) => {
            problems.push(("handle-it-was-sent-from-still-receives".into(), json!({"message": v, "queued_before": pre, "sent_after": post})));
            "message"
        },
        Ok(Err(_)) => "error",
        Err(_) => "panic",
    };
    let mut got = Vec::new();
    for _ in 0..pre + post {
        match moved.try_recv() {
            Ok(v) => got.push(v),
            Err(_) => break,
        }
    }
    let want: Vec<u32> = (0..pre + post).collect();
    if got != want {
        problems.push(("transferred-receiver-misses-messages".into(), json!({"got": got, "queued_before": pre, "sent_after": post})));
    }
    rep.case(&("shared-pointer", pre, post, kept_desc), true);
    rep.stat("receivers_sent_by_shared_pointer", 1);
    rep.stat(&format!("kept_handle_{}", kept_desc), 1);
    for (k, d) in problems {
        rep.violation(&format!("C04:shared-pointer:{}", k), json!({"case": case, "variant": variant(), "problem": d}), ctx.replay(case));
    }
}

pub fn run(ctx: &Ctx) {
    let sz = sizes();
    let n = ctx.opt_u64("cases", if ctx.thorough { 900 } else { 30 });
    let mut relays = vec![Relay::thread(), Relay::thread()];
    if is_os() {
        relays.push(Relay::process());
        relays.push(Relay::process());
    }
    for i in 0..n {
        let case = ctx.batch * 1_000_000 + i;
        if !ctx.want(case) {
            continue;
        }
        let _g = op_begin("value-through-relays", case);
        if i % 5 == 4 && !cfg!(miri) {
            shared_pointer_case(ctx, case);
            continue;
        }
        run_case(ctx, &sz, &relays, case);
    }
    for r in relays {
        r.finish();
    }
}
