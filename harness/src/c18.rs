//! C18 (c) — zero-length and odd-length shared-memory regions at every public API level, run in a
//! debug build so that std's `ub_checks` (null/unaligned raw slices, overlapping copies) abort the
//! process, and under ASan. The other C18 monitors reuse the generators of C01/C04/C05/C12/C13/C15.
#![cfg(not(feature = "inproc"))]

use crate::util::*;
use crate::Ctx;
use ipc_channel::ipc::{self, IpcSharedMemory};
use ipc_channel::platform::{self, OsIpcSharedMemory};
use serde_json::json;

fn check(rep: &Report, what: &str, ok: bool, ctx: &Ctx, case: u64, detail: serde_json::Value) {
    if !ok {
        rep.violation(&format!("C18:region:{}", what), detail, ctx.replay(case));
    }
}

pub fn run(ctx: &Ctx) {
    let rep = &ctx.rep;
    let lens: Vec<usize> = vec![0, 1, 2, 3, 7, 8, 9, 4095, 4096, 4097, 8191, 8193, 12289, 65537];
    let n = ctx.opt_u64("rounds", if ctx.thorough { 200 } else { 12 });
    let mut case = ctx.batch * 1_000_000;
    for round in 0..n {
        for &len in &lens {
            case += 1;
            if !ctx.want(case) {
                continue;
            }
            rep.raw(json!({"t":"journal","case":case}));
            let _g = op_begin("region-levels", case);
            let id = case ^ 0x18;
            let content = body(id, len);
            // ---- platform level
            let a = OsIpcSharedMemory::from_bytes(&content);
            check(rep, "platform-from_bytes-readback", &a[..] == &content[..], ctx, case, json!({"len": len}));
            let b = OsIpcSharedMemory::from_byte(0xAB, len);
            check(rep, "platform-from_byte-readback", b.len() == len && b.iter().all(|x| *x == 0xAB), ctx, case, json!({"len": len}));
            let c = a.clone();
            check(rep, "platform-clone-readback", &c[..] == &content[..] && c == a, ctx, case, json!({"len": len}));
            let dbg = format!("{:?}", b);
            check(rep, "platform-debug-format", dbg.len() >= 2, ctx, case, json!({"len": len}));
            // send and receive at platform level (the receiver maps the region from its descriptor)
            let (tx, rx) = platform::channel().expect("platform channel");
            let data = body(id ^ 1, (round as usize * 37) % 600);
            let sent = tx.send(&data, vec![], vec![a, b]);
            match sent {
                Ok(()) => match rx.recv() {
                    Ok((d, ch, regs)) => {
                        let ok = d == data && ch.is_empty() && regs.len() == 2 && &regs[0][..] == &content[..] && regs[1].len() == len && regs[1].iter().all(|x| *x == 0xAB);
                        check(rep, "platform-received-readback", ok, ctx, case, json!({"len": len, "regions": regs.len(), "lens": regs.iter().map(|g| g.len()).collect::<Vec<_>>()}));
                        let again = regs[0].clone();
                        check(rep, "platform-received-clone-readback", &again[..] == &content[..], ctx, case, json!({"len": len}));
                    },
                    Err(e) => check(rep, "platform-receive-failed", false, ctx, case, json!({"len": len, "error": e.to_string()})),
                },
                Err(e) => check(rep, "platform-send-failed", false, ctx, case, json!({"len": len, "error": e.to_string()})),
            }
            drop(c);
            // ---- ipc level
            let g = IpcSharedMemory::from_bytes(&content);
            let h = IpcSharedMemory::from_byte(0x5C, len);
            check(rep, "ipc-readback", &g[..] == &content[..] && h.len() == len && h.iter().all(|x| *x == 0x5C), ctx, case, json!({"len": len}));
            let (tx, rx) = must("channel", ipc::channel::<(IpcSharedMemory, Vec<u8>, IpcSharedMemory)>());
            let mid = body(id ^ 2, len % 17);
            match tx.send((g.clone(), mid.clone(), h)) {
                Ok(()) => match rx.recv() {
                    Ok((g2, m2, h2)) => {
                        let ok = &g2[..] == &content[..] && m2 == mid && h2.len() == len && h2.iter().all(|x| *x == 0x5C);
                        check(rep, "ipc-received-readback", ok, ctx, case, json!({"len": len}));
                    },
                    Err(e) => check(rep, "ipc-receive-failed", false, ctx, case, json!({"len": len, "error": format!("{:?}", e)})),
                },
                Err(e) => check(rep, "ipc-send-failed", false, ctx, case, json!({"len": len, "error": e.to_string()})),
            }
            rep.case(&(len, round % 4), true);
            rep.stat("regions_exercised", 6);
            if len == 0 {
                rep.stat("zero_length_rounds", 1);
            }
            if len % 4096 != 0 {
                rep.stat("odd_length_rounds", 1);
            }
            if round == 0 {
                rep.sample(json!({"len": len, "levels": ["platform from_bytes/from_byte/clone/Debug/send/recv", "ipc from_bytes/from_byte/send/recv"], "variant": variant(),
                    "debug_assertions": cfg!(debug_assertions)}));
            }
        }
    }
}
