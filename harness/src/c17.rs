//! C17 — stopping a router, by shutdown or proxy drop, is clean and complete.

use crate::gen::Blob;
use crate::util::*;
use crate::Ctx;
use ipc_channel::ipc::{self, IpcSender};
use ipc_channel::router::RouterProxy;
use serde_json::{json, Value};
use std::sync::atomic::{AtomicBool, AtomicU64, Ordering};
use std::sync::{Arc, Mutex};
use std::time::Duration;

type M = (u32, u32, Blob);

#[derive(Debug, Clone)]
enum Ev {
    Invoke { route: u32, start: u64 },
    Dropped { route: u32, at: u64 },
}

struct Guard {
    route: u32,
    log: Arc<Mutex<Vec<Ev>>>,
}
impl Drop for Guard {
    fn drop(&mut self) {
        // what a callback owns may take a moment to drop (every third guard does): a router that
        // confirms the shutdown before it has dropped its handlers is then caught by the stamps
        if self.route % 3 == 0 {
            std::thread::sleep(Duration::from_micros(300));
        }
        self.log.lock().unwrap().push(Ev::Dropped { route: self.route, at: now_ns() });
    }
}

/// Counts a stopper/racer thread as finished even if the call it made panicked (the panic itself
/// is reported through the process-wide panic hook).
struct DoneGuard(Arc<AtomicU64>);
impl Drop for DoneGuard {
    fn drop(&mut self) {
        self.0.fetch_add(1, Ordering::SeqCst);
    }
}

fn callback(route: u32, log: &Arc<Mutex<Vec<Ev>>>) -> ipc_channel::router::RouterHandler {
    let guard = Guard { route, log: log.clone() };
    let l2 = log.clone();
    Box::new(move |om| {
        let _g = &guard;
        let start = now_ns();
        let _ = om.to::<M>();
        l2.lock().unwrap().push(Ev::Invoke { route, start });
    })
}

pub fn run_case(ctx: &Ctx, case: u64) {
    let rep = &ctx.rep;
    let mut r = Rng::derive(ctx.seed, 0xc17, case);
    let nroutes = r.below(17) as usize;
    let by_drop = r.chance(350);
    let nshut = if by_drop { 0 } else { r.range(1, 4) as usize };
    let nracers = if by_drop { 0 } else { *r.pick(&[0usize, 1, 2, 3, 4, 6, 8]) };
    let nlate = r.below(3) as usize;
    let log: Arc<Mutex<Vec<Ev>>> = Arc::new(Mutex::new(Vec::new()));
    let panics_before = panic_count();
    let proxy = Arc::new(RouterProxy::new());
    let mut senders: Vec<(u32, IpcSender<M>)> = Vec::new();
    let mut cb_routes: Vec<u32> = Vec::new();
    let mut consumers: Vec<(u32, crossbeam_channel::Receiver<M>)> = Vec::new();
    for i in 0..nroutes as u32 {
        let (tx, rx) = must("channel", ipc::channel::<M>());
        if r.chance(550) {
            proxy.add_route(rx.to_opaque(), callback(i, &log));
            cb_routes.push(i);
        } else {
            consumers.push((i, proxy.route_ipc_receiver_to_new_crossbeam_receiver(rx)));
        }
        senders.push((i, tx));
    }
    // traffic in flight, continuing after the stop
    let stop_traffic = Arc::new(AtomicBool::new(false));
    let sent_total = Arc::new(AtomicU64::new(0));
    let nprod = if senders.is_empty() { 0 } else { r.range(1, 3) as usize };
    let mut prod_handles = Vec::new();
    let mut shares: Vec<Vec<(u32, IpcSender<M>)>> = (0..nprod.max(1)).map(|_| Vec::new()).collect();
    for (k, s) in senders.into_iter().enumerate() {
        shares[k % nprod.max(1)].push(s);
    }
    for share in shares {
        if share.is_empty() {
            continue;
        }
        let (stop, total) = (stop_traffic.clone(), sent_total.clone());
        prod_handles.push(std::thread::spawn(move || {
            let mut seq = 0u32;
            while !stop.load(Ordering::SeqCst) {
                for (tag, tx) in &share {
                    if tx.send((*tag, seq, Blob(vec![7; 40]))).is_ok() {
                        total.fetch_add(1, Ordering::Relaxed);
                    }
                }
                seq += 1;
                std::thread::sleep(Duration::from_micros(150));
            }
        }));
    }
    std::thread::sleep(Duration::from_micros(r.range(200, 3000)));

    // ---- stop
    let first_stop_ret = Arc::new(AtomicU64::new(u64::MAX));
    let stop_call = Arc::new(AtomicU64::new(u64::MAX));
    let racer_info: Arc<Mutex<Vec<(u32, u64, u64)>>> = Arc::new(Mutex::new(Vec::new())); // (route, call, ret)
    let mut stoppers: Vec<std::thread::JoinHandle<()>> = Vec::new();
    let stop_threads_done = Arc::new(AtomicU64::new(0));
    let total_stop_threads = if by_drop { 1 } else { nshut + nracers } as u64;
    let mut proxy_opt = Some(proxy);
    if by_drop {
        let p = proxy_opt.take().unwrap();
        let (fr, sc, done) = (first_stop_ret.clone(), stop_call.clone(), stop_threads_done.clone());
        stoppers.push(std::thread::spawn(move || {
            let _done = DoneGuard(done);
            sc.fetch_min(now_ns(), Ordering::SeqCst);
            drop(p);
            fr.fetch_min(now_ns(), Ordering::SeqCst);
        }));
    } else {
        let proxy = proxy_opt.as_ref().unwrap();
        // when racers offer routes back to back, the first shutdown call waits until a (seeded)
        // number of offers has been made, so that it lands in the middle of the stream
        let offers = Arc::new(AtomicU64::new(0));
        let spins: Vec<bool> = (0..nracers).map(|_| r.chance(700)).collect();
        let any_spin = spins.iter().any(|s| *s);
        for _ in 0..nshut {
            let (p, fr, sc, done, offers) = (proxy.clone(), first_stop_ret.clone(), stop_call.clone(), stop_threads_done.clone(), offers.clone());
            let pause = r.below(300);
            let after_offers = if any_spin { r.range(1, 60) } else { 0 };
            stoppers.push(std::thread::spawn(move || {
                let _done = DoneGuard(done);
                std::thread::sleep(Duration::from_micros(pause));
                let t0 = now_ns();
                while offers.load(Ordering::SeqCst) < after_offers && now_ns() - t0 < 50_000_000 {
                    std::hint::spin_loop();
                }
                sc.fetch_min(now_ns(), Ordering::SeqCst);
                p.shutdown();
                fr.fetch_min(now_ns(), Ordering::SeqCst);
            }));
        }
        for k in 0..nracers {
            let (p, ri, done, fr, offers) = (proxy.clone(), racer_info.clone(), stop_threads_done.clone(), first_stop_ret.clone(), offers.clone());
            let pause = r.below(400);
            // half of the racers offer one route; the others offer routes back to back from before
            // the shutdown until one offer has begun after a shutdown call returned. Channels and
            // callbacks are prepared beforehand so that the offers follow each other densely.
            let spin = spins[k];
            let mut prepared = Vec::new();
            for j in 0..if spin { 150u32 } else { 1 } {
                let route = if spin { 10_000 + 1000 * k as u32 + j } else { 100 + k as u32 };
                let (tx, rx) = must("channel", ipc::channel::<M>());
                let _ = tx.send((route, 0, Blob(vec![1])));
                prepared.push((route, tx, rx.to_opaque(), callback(route, &log)));
            }
            stoppers.push(std::thread::spawn(move || {
                let _done = DoneGuard(done);
                std::thread::sleep(Duration::from_micros(pause));
                let mut keep = Vec::new();
                let mut unused = Vec::new();
                let mut finished = false;
                for (route, tx, rx, cb) in prepared {
                    if finished {
                        unused.push((tx, rx, cb));
                        continue;
                    }
                    let stopped_before = fr.load(Ordering::SeqCst) != u64::MAX;
                    let call = now_ns();
                    offers.fetch_add(1, Ordering::SeqCst);
                    p.add_route(rx, cb);
                    let ret = now_ns();
                    ri.lock().unwrap().push((route, call, ret));
                    keep.push(tx);
                    finished = stopped_before;
                }
                // keep the senders around a little so the routes are live if they were registered
                std::thread::sleep(Duration::from_micros(500));
                drop(keep);
                drop(unused);
            }));
        }
    }
    // every stop call must return (rule 3.5)
    let done2 = stop_threads_done.clone();
    let returned = await_cond(20_000, &move || done2.load(Ordering::SeqCst) >= total_stop_threads);
    let mut problems: Vec<(String, Value)> = Vec::new();
    let base = json!({"case": case, "variant": variant(), "routes": nroutes, "callback_routes": cb_routes.len(), "crossbeam_routes": consumers.len(),
        "stop": if by_drop {"proxy-drop"} else {"shutdown"}, "shutdown_threads": nshut, "racing_add_route_threads": nracers, "late_routes": nlate});
    match returned {
        Ok(true) => {},
        Ok(false) => {
            problems.push(("stop-call-never-returns".into(), json!({"returned": stop_threads_done.load(Ordering::SeqCst), "of": total_stop_threads})));
            stop_traffic.store(true, Ordering::SeqCst);
            report(ctx, case, base, problems, &log.lock().unwrap(), 0);
            return;
        },
        Err(e) => {
            rep.inconclusive(&format!("c17 case {}: {}", case, e));
            stop_traffic.store(true, Ordering::SeqCst);
            return;
        },
    }
    for s in stoppers {
        let _ = s.join();
    }
    let stop_ret = first_stop_ret.load(Ordering::SeqCst);
    // routes offered after the stop are dropped without ever being invoked
    let mut late_routes = Vec::new();
    if let Some(proxy) = proxy_opt.as_ref() {
        for k in 0..nlate {
            let route = 200 + k as u32;
            let (tx, rx) = must("channel", ipc::channel::<M>());
            let _ = tx.send((route, 0, Blob(vec![2])));
            // (a panic here - e.g. a proxy mutex poisoned by an earlier panic - is reported below)
            let cb = callback(route, &log);
            let _ = std::panic::catch_unwind(std::panic::AssertUnwindSafe(|| proxy.add_route(rx.to_opaque(), cb)));
            let ret = now_ns();
            late_routes.push((route, ret, tx));
        }
    }
    // further sends on the old routes keep going for a moment
    std::thread::sleep(Duration::from_millis(if by_drop { 5 } else { 15 }));
    stop_traffic.store(true, Ordering::SeqCst);
    for h in prod_handles {
        let _ = h.join();
    }
    // ---- verdicts
    if by_drop {
        // after the proxy is gone the router must wind down: all guards fire (logical wait)
        let (l2, cbs) = (log.clone(), cb_routes.clone());
        let all_dropped = move || {
            let l = l2.lock().unwrap();
            cbs.iter().all(|r| l.iter().any(|e| matches!(e, Ev::Dropped { route, .. } if route == r)))
        };
        match await_cond(20_000, &all_dropped) {
            Ok(true) => {},
            Ok(false) => problems.push(("callbacks-never-dropped-after-proxy-drop".into(), json!({}))),
            Err(e) => {
                rep.inconclusive(&format!("c17 case {}: {}", case, e));
                return;
            },
        }
    }
    let l = log.lock().unwrap().clone();
    let racers = racer_info.lock().unwrap().clone();
    let mut base = base;
    base["racing_add_route_calls"] = json!(racers.len());
    if !by_drop {
        for r_ in &cb_routes {
            match l.iter().find_map(|e| if let Ev::Dropped { route, at } = e { if route == r_ { Some(*at) } else { None } } else { None }) {
                None => problems.push(("registered-callback-not-dropped-when-shutdown-returned".into(), json!({"route": r_, "dropped": "never (so far)"}))),
                Some(at) if at > stop_ret => problems.push(("registered-callback-not-dropped-when-shutdown-returned".into(), json!({"route": r_, "late_by_ns": at - stop_ret}))),
                _ => {},
            }
        }
        let late_invokes: Vec<(u32, u64)> = l.iter().filter_map(|e| if let Ev::Invoke { route, start } = e { if *start > stop_ret { Some((*route, *start - stop_ret)) } else { None } } else { None }).collect();
        if !late_invokes.is_empty() {
            problems.push(("callback-invoked-after-shutdown-returned".into(), json!({"count": late_invokes.len(), "first": late_invokes[0]})));
        }
        for (route, call, ret) in &racers {
            let dropped_at = l.iter().find_map(|e| if let Ev::Dropped { route: r2, at } = e { if r2 == route { Some(*at) } else { None } } else { None });
            let deadline = (*ret).max(stop_ret);
            match dropped_at {
                None => problems.push(("racing-route-callback-kept-alive".into(), json!({"route": route}))),
                Some(at) if at > deadline => problems.push(("racing-route-callback-kept-alive".into(), json!({"route": route, "late_by_ns": at - deadline}))),
                _ => {},
            }
            if *call > stop_ret && l.iter().any(|e| matches!(e, Ev::Invoke { route: r2, .. } if r2 == route)) {
                problems.push(("route-offered-after-shutdown-was-invoked".into(), json!({"route": route})));
            }
        }
        for (route, ret, _tx) in &late_routes {
            let dropped_at = l.iter().find_map(|e| if let Ev::Dropped { route: r2, at } = e { if r2 == route { Some(*at) } else { None } } else { None });
            if dropped_at.map(|a| a > *ret).unwrap_or(true) {
                problems.push(("route-offered-after-shutdown-not-dropped".into(), json!({"route": route})));
            }
            if l.iter().any(|e| matches!(e, Ev::Invoke { route: r2, .. } if r2 == route)) {
                problems.push(("route-offered-after-shutdown-was-invoked".into(), json!({"route": route})));
            }
        }
    }
    // crossbeam consumers observe disconnection
    for (route, crx) in &consumers {
        let mut disconnected = false;
        let t0 = now_ns();
        loop {
            match crx.try_recv() {
                Ok(_) => continue,
                Err(crossbeam_channel::TryRecvError::Disconnected) => {
                    disconnected = true;
                    break;
                },
                Err(crossbeam_channel::TryRecvError::Empty) => {
                    if !by_drop {
                        break; // shutdown has returned: it must already be disconnected
                    }
                    if now_ns() - t0 > 20_000_000_000 {
                        if process_quiescent() != Some(true) {
                            rep.inconclusive(&format!("c17 case {}: crossbeam route {} undecided", case, route));
                            return;
                        }
                        break;
                    }
                    std::thread::sleep(Duration::from_micros(300));
                },
            }
        }
        if !disconnected {
            problems.push(("crossbeam-consumer-not-disconnected".into(), json!({"route": route})));
        }
    }
    // no thread may have panicked
    std::thread::sleep(Duration::from_millis(2));
    if panic_count() > panics_before {
        let p = take_panics();
        let at = p.last().cloned().unwrap_or_default();
        let file = at.split(" at ").nth(1).and_then(|s| s.split(':').next()).unwrap_or("?").replace("/repo/", "");
        problems.push((format!("thread-panicked:{}", file), json!({"panic": at})));
    }
    drop(late_routes);
    report(ctx, case, base, problems, &l, sent_total.load(Ordering::Relaxed));
}

fn report(ctx: &Ctx, case: u64, base: Value, problems: Vec<(String, Value)>, l: &[Ev], sent: u64) {
    let rep = &ctx.rep;
    let order: Vec<(u32, bool)> = l.iter().map(|e| match e { Ev::Invoke { route, .. } => (*route, false), Ev::Dropped { route, .. } => (*route, true) }).collect();
    rep.case(&(hash_of(&order), base["stop"].as_str().map(|s| s.to_string())), true);
    rep.stat("scenarios", 1);
    rep.stat(&format!("stop_{}", base["stop"].as_str().unwrap_or("?")), 1);
    rep.stat("callback_invocations", l.iter().filter(|e| matches!(e, Ev::Invoke { .. })).count() as i64);
    rep.stat("messages_sent", sent as i64);
    rep.stat("racing_add_route_threads", base["racing_add_route_threads"].as_i64().unwrap_or(0));
    rep.stat("racing_add_route_calls", base["racing_add_route_calls"].as_i64().unwrap_or(0));
    let stop = base["stop"].as_str().unwrap_or("?").to_string();
    let mut seen = std::collections::BTreeSet::new();
    for (k, d) in problems {
        if seen.insert(k.clone()) {
            rep.violation(&format!("C17:{}:{}", stop, k), json!({"ctx": base, "problem": d}), ctx.replay(case));
        }
    }
    if case % 13 == 0 {
        rep.sample(json!({"ctx": base, "events": l.len(), "clean": seen.is_empty()}));
    }
}

pub fn run(ctx: &Ctx) {
    let n = ctx.opt_u64("cases", if ctx.thorough { 400 } else { 30 });
    for i in 0..n {
        let case = ctx.batch * 1_000_000 + i;
        if !ctx.want(case) {
            continue;
        }
        run_case(ctx, case);
        if ctx.rep.nviol.load(Ordering::Relaxed) >= 12 {
            break;
        }
    }
}
