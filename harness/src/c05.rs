//! C05 — shared-memory regions arrive with identical contents.

use crate::util::*;
use crate::Ctx;
use ipc_channel::ipc::{self, IpcOneShotServer, IpcReceiver, IpcSender, IpcSharedMemory};
use serde::{Deserialize, Serialize};
use serde_json::json;

#[derive(Serialize, Deserialize)]
pub struct ShmMsg {
    pub tag: u64,
    pub head: Vec<IpcSender<u64>>,
    pub regions: Vec<IpcSharedMemory>,
    pub tail: Option<IpcSender<u64>>,
}

type Report = Vec<(u64, u64, u64)>; // (tag, len, digest) per region

fn digest(b: &[u8]) -> u64 {
    // FNV-1a over 8-byte words + tail: cheap enough for 32 MiB in a debug build
    let mut h: u64 = 0xcbf29ce484222325;
    let mut it = b.chunks_exact(8);
    for c in &mut it {
        h = (h ^ u64::from_le_bytes(c.try_into().unwrap())).wrapping_mul(0x100000001b3);
    }
    for &x in it.remainder() {
        h = (h ^ x as u64).wrapping_mul(0x100000001b3);
    }
    h ^ b.len() as u64
}

/// exec'd reader: report digests on receipt, and again after the carrying channel is gone.
pub fn role_reader(args: &[String]) -> i32 {
    let name = args[0].clone();
    let (in_tx, in_rx) = ipc::channel::<ShmMsg>().unwrap();
    let (out_tx, out_rx) = ipc::channel::<Report>().unwrap();
    let boot: IpcSender<(IpcSender<ShmMsg>, IpcReceiver<Report>)> = IpcSender::connect(name).unwrap();
    boot.send((in_tx, out_rx)).unwrap();
    drop(boot);
    let mut kept: Vec<(u64, IpcSharedMemory)> = Vec::new();
    while let Ok(m) = in_rx.recv() {
        let rep: Report = m.regions.iter().map(|g| (m.tag, g.len() as u64, digest(g))).collect();
        if out_tx.send(rep).is_err() {
            return 1;
        }
        for g in m.regions {
            kept.push((m.tag, g));
        }
        if kept.len() > 64 {
            kept.drain(..32);
        }
    }
    // carrier and all sender-side copies are gone now
    let rep: Report = kept.iter().map(|(t, g)| (*t, g.len() as u64, digest(g))).collect();
    let _ = out_tx.send(rep);
    0
}

#[derive(Clone, Debug)]
struct Spec {
    cid: u64,
    len: usize,
    from_byte: Option<u8>,
    clones: usize,
}

fn content(s: &Spec) -> Vec<u8> {
    match s.from_byte {
        Some(b) => vec![b; s.len],
        None => body(s.cid, s.len),
    }
}

fn len_class(len: usize) -> String {
    let page = 4096usize;
    for (name, b) in [("0", 0usize), ("page", page), ("2page", 2 * page)] {
        let d = len as i64 - b as i64;
        if d.abs() <= 2 {
            return format!("{}{:+}", name, d);
        }
    }
    format!("2^{}{}", 63 - (len as u64).leading_zeros(), if len % page == 0 { "a" } else { "u" })
}

fn gen_len(r: &mut Rng, cap: usize) -> usize {
    let page = 4096usize;
    match r.below(10) {
        0 => 0,
        1 => 1,
        2 => page - 1,
        3 => page,
        4 => page + 1,
        5 => 2 * page - 1,
        6 => 2 * page + 1,
        7 => 2 * page,
        _ => {
            let bits = r.range(1, (63 - (cap as u64).leading_zeros()) as u64);
            (r.next() % (1u64 << bits)) as usize + 1
        },
    }
}

pub fn run(ctx: &Ctx) {
    let rep = &ctx.rep;
    let n = ctx.opt_u64("cases", if ctx.thorough { 600 } else { 40 });
    let cap = ctx.opt_u64("cap", if ctx.thorough { 4 << 20 } else { 1 << 20 }) as usize;
    // forked relatives create regions at the same time (done first, while this driver has spawned
    // nothing yet): a forked child shares the parent's pid cache and region counter, so whatever
    // makes region names unique must still tell the two apart. The interposer keeps every new
    // name linked 300 us longer, which is the window in which a second creator would collide.
    if is_os() && ctx.only_case.is_none() {
        drop(IpcSharedMemory::from_bytes(&[1, 2, 3]));
        if let Some(m) = mon() {
            m.set_shm_widen(300);
        }
        let per = 30u64;
        let create = |who: u64| -> usize {
            let mut bad = 0;
            for j in 0..per {
                let id = 0xc05f_0000 + who * 1000 + j;
                let len = [1usize, 4096, 5000][(j % 3) as usize];
                let g = IpcSharedMemory::from_bytes(&body(id, len));
                if &g[..] != &body(id, len)[..] {
                    bad += 1;
                }
            }
            bad
        };
        let mut pids = Vec::new();
        for c in 0..2u64 {
            let pid = unsafe { libc::fork() };
            if pid == 0 {
                let r = std::panic::catch_unwind(|| create(c + 1));
                unsafe { libc::_exit(match r { Ok(0) => 0, Ok(_) => 42, Err(_) => 43 }) };
            }
            pids.push(pid);
        }
        let mine = std::panic::catch_unwind(|| create(0));
        if let Some(m) = mon() {
            m.set_shm_widen(0);
        }
        let mut outcomes = Vec::new();
        for pid in pids {
            let mut st = 0;
            unsafe { libc::waitpid(pid, &mut st, 0) };
            outcomes.push(if libc::WIFEXITED(st) { libc::WEXITSTATUS(st) } else { -libc::WTERMSIG(st) });
        }
        rep.stat("forked_creator_rounds", 1);
        rep.stat("regions_created_by_forked_relatives", (3 * per) as i64);
        let parent = match &mine { Ok(0) => "ok", Ok(_) => "contents-differ", Err(_) => "panicked" };
        if parent != "ok" || outcomes.iter().any(|o| *o != 0) {
            let p = take_panics();
            rep.violation("C05:region-creation-fails-among-forked-relatives",
                json!({"parent": parent, "children_exit": outcomes, "meaning": "0 ok, 42 contents differ, 43 panicked, negative = signal",
                    "panic": p.last().cloned().unwrap_or_default()}), ctx.replay(0));
        }
    }
    // exec'd reader (OS transports only)
    let mut reader = None;
    let mut forked_reader: Option<i32> = None;
    if is_os() {
        let (server, name) = must("server", IpcOneShotServer::<(IpcSender<ShmMsg>, IpcReceiver<Report>)>::new());
        if ctx.batch % 2 == 1 {
            // fork()ed reader (no exec): done while this driver is single-threaded. It inherits two
            // regions created before the fork and must read them through the inherited mappings.
            let pre: Vec<IpcSharedMemory> = vec![IpcSharedMemory::from_bytes(&body(0xf0f0 + ctx.batch, 4097)), IpcSharedMemory::from_byte(0x3c, 12289)];
            let pid = unsafe { libc::fork() };
            if pid == 0 {
                let ok = &pre[0][..] == &body(0xf0f0 + ctx.batch, 4097)[..] && pre[1].len() == 12289 && pre[1].iter().all(|b| *b == 0x3c);
                // (the verdict on the inherited regions is reported at the end: the parent is waiting in
                // accept() and must get its connection first)
                let rc = role_reader(&[name]);
                unsafe { libc::_exit(if ok { rc } else { 41 }) };
            }
            let (_b, (tx, rx)) = server.accept().expect("accept forked reader");
            // a placeholder Child is not available for a raw fork: keep the pid
            forked_reader = Some(pid);
            reader = Some((tx, rx, None));
            drop(pre);
        } else {
            let child = std::process::Command::new(self_exe()).args(["role", "c05-reader", &name]).spawn().expect("spawn reader");
            let (_b, (tx, rx)) = server.accept().expect("accept reader");
            reader = Some((tx, rx, Some(child)));
        }
    }
    let mut expected_final: Vec<(u64, u64, u64)> = Vec::new();
    for i in 0..n {
        let case = ctx.batch * 1_000_000 + i;
        if !ctx.want(case) {
            continue;
        }
        let _g = op_begin("regions-round-trip", case);
        let mut r = Rng::derive(ctx.seed, 0xc05, case);
        let nreg = r.range(1, 8) as usize;
        let huge = i == 0 && ctx.batch == 0 && ctx.opt_u64("huge", 1) == 1;
        let mut specs: Vec<Spec> = (0..nreg)
            .map(|k| Spec {
                cid: (case << 8) | k as u64,
                len: gen_len(&mut r, cap),
                from_byte: if r.chance(250) { Some(r.next() as u8) } else { None },
                clones: r.below(4) as usize,
            })
            .collect();
        if huge {
            specs[0].len = 32 << 20;
        }
        // lengths just past a 2 MiB (huge page) boundary, in every batch
        if (i == 1 || i == 2) && ctx.opt_u64("huge", 1) == 1 {
            specs[0].len = (2 << 20) + [3usize, 4097, (1 << 20) + 7, (2 << 20) - 1][((ctx.batch * 2 + i) % 4) as usize];
        }
        let to_child = reader.is_some() && r.chance(500);
        let mut problems: Vec<(String, serde_json::Value)> = Vec::new();
        // create, check in creator and clones
        let mut originals = Vec::new();
        let mut clones = Vec::new();
        for s in &specs {
            let want = content(s);
            let g = match s.from_byte {
                Some(b) => IpcSharedMemory::from_byte(b, s.len),
                None => IpcSharedMemory::from_bytes(&want),
            };
            if &g[..] != &want[..] {
                problems.push(("creator-readback".into(), json!({"len": s.len, "got_len": g.len()})));
            }
            for _ in 0..s.clones {
                let c = g.clone();
                if &c[..] != &want[..] {
                    problems.push(("clone-readback".into(), json!({"len": s.len, "got_len": c.len()})));
                }
                clones.push(c);
            }
            originals.push(g);
        }
        // message: regions in shuffled order, endpoints before and after
        let mut order: Vec<usize> = (0..nreg).collect();
        r.shuffle(&mut order);
        let (ptx, prx) = must("channel", ipc::channel::<u64>());
        let msg = ShmMsg {
            tag: case,
            head: (0..r.below(3)).map(|_| ptx.clone()).collect(),
            regions: order.iter().map(|&k| originals[k].clone()).collect(),
            tail: if r.chance(500) { Some(ptx.clone()) } else { None },
        };
        let nhead = msg.head.len();
        let has_tail = msg.tail.is_some();
        let path;
        if to_child {
            path = if forked_reader.is_some() { "forked-child" } else { "exec-child" };
            let (tx, rx, _c) = reader.as_ref().unwrap();
            if let Err(e) = tx.send(msg) {
                problems.push(("send-failed".into(), json!({"error": e.to_string()})));
            } else {
                match rx.recv() {
                    Ok(report) => {
                        let want: Report = order.iter().map(|&k| (case, specs[k].len as u64, digest(&content(&specs[k])))).collect();
                        if report != want {
                            problems.push(("child-digest-differs".into(), json!({"want": want, "got": report})));
                        }
                        expected_final.extend(want);
                        if expected_final.len() > 64 {
                            // mirror the child's retention window
                            let cut = expected_final.len();
                            let _ = cut;
                        }
                    },
                    Err(e) => problems.push(("child-report-missing".into(), json!({"error": format!("{:?}", e)}))),
                }
            }
        } else {
            path = "same-process";
            let (tx, rx) = must("channel", ipc::channel::<ShmMsg>());
            if let Err(e) = tx.send(msg) {
                problems.push(("send-failed".into(), json!({"error": e.to_string()})));
            }
            match rx.recv() {
                Ok(m) => {
                    if m.regions.len() != nreg || m.head.len() != nhead || m.tail.is_some() != has_tail {
                        problems.push(("attachment-count-differs".into(), json!({"regions": m.regions.len(), "want": nreg})));
                    }
                    for (j, g) in m.regions.iter().enumerate() {
                        let s = &specs[order[j]];
                        if &g[..] != &content(s)[..] {
                            problems.push(("received-differs".into(), json!({"position": j, "len": s.len, "got_len": g.len()})));
                        }
                    }
                    // endpoints around the regions still work
                    for (q, s) in m.head.iter().chain(m.tail.iter()).enumerate() {
                        let _ = s.send(case ^ q as u64);
                    }
                    let mut probes = 0;
                    while prx.try_recv().is_ok() {
                        probes += 1;
                    }
                    if probes != nhead + has_tail as usize {
                        problems.push(("endpoints-around-regions".into(), json!({"probes_arrived": probes, "want": nhead + has_tail as usize})));
                    }
                    // drop sender-side copies and the carrying channel, read again
                    let received = m.regions;
                    drop(tx);
                    drop(rx);
                    drop(std::mem::take(&mut originals));
                    drop(std::mem::take(&mut clones));
                    for (j, g) in received.iter().enumerate() {
                        let s = &specs[order[j]];
                        if &g[..] != &content(s)[..] {
                            problems.push(("differs-after-sender-dropped".into(), json!({"position": j, "len": s.len, "got_len": g.len()})));
                        }
                    }
                    rep.stat("reread_after_drop", received.len() as i64);
                },
                Err(e) => problems.push(("receive-failed".into(), json!({"error": format!("{:?}", e)}))),
            }
        }
        drop(originals);
        drop(clones);
        for s in &specs {
            rep.case(&(len_class(s.len), s.from_byte.is_some(), nreg, s.clones, path, variant()), true);
            rep.stat("regions", 1);
            rep.stat("region_bytes", s.len as i64);
            if s.len == 0 {
                rep.stat("zero_length_regions", 1);
            }
            if s.len % 4096 != 0 {
                rep.stat("non_page_multiple_regions", 1);
            }
        }
        rep.stat(&format!("path_{}", path), 1);
        let ctxj = json!({"case": case, "variant": variant(), "path": path,
            "regions_in_message_order": order.iter().map(|&k| json!({"len": specs[k].len, "ctor": if specs[k].from_byte.is_some() {"from_byte"} else {"from_bytes"}, "clones": specs[k].clones})).collect::<Vec<_>>()});
        let mut seen = std::collections::BTreeSet::new();
        for (k, d) in problems {
            if seen.insert(k.clone()) {
                rep.violation(&format!("C05:{}", k), json!({"ctx": ctxj, "problem": d}), ctx.replay(case));
            }
        }
        if i % 15 == 0 {
            rep.sample(json!({"ctx": ctxj, "all_equal": seen.is_empty()}));
        }
    }
    // final report of the reader after its carrier disconnected
    if let Some((tx, rx, child)) = reader {
        drop(tx);
        match rx.recv() {
            Ok(fin) => {
                // the child kept a sliding window; every entry it reports must be one we sent, unchanged
                let mut bad = 0;
                for e in &fin {
                    if !expected_final.contains(e) {
                        bad += 1;
                    }
                }
                rep.stat("child_reread_after_carrier_dropped", fin.len() as i64);
                if bad > 0 {
                    rep.violation("C05:child-differs-after-carrier-dropped", json!({"bad_entries": bad, "entries": fin.len()}), ctx.replay(0));
                }
            },
            Err(e) => {
                if ctx.only_case.is_none() && !expected_final.is_empty() {
                    rep.violation("C05:child-final-report-missing", json!({"error": format!("{:?}", e)}), ctx.replay(0));
                }
            },
        }
        if let Some(mut c) = child {
            let _ = c.wait();
        }
        if let Some(pid) = forked_reader {
            let mut st = 0;
            unsafe { libc::waitpid(pid, &mut st, 0) };
            let code = if libc::WIFEXITED(st) { libc::WEXITSTATUS(st) } else { -1 };
            rep.stat("forked_reader_batches", 1);
            if code == 41 {
                rep.violation("C05:forked-child-reads-inherited-region-differently", json!({"exit": code}), ctx.replay(0));
            } else if code != 0 {
                rep.violation("C05:forked-reader-failed", json!({"exit": code, "signaled": libc::WIFSIGNALED(st)}), ctx.replay(0));
            }
        }
    }
}
