//! Reference model (ideal unbounded FIFO channels with handle counting) and a
//! model-driven program generator/interpreter. Each step is generated from the model
//! state, executed against the real API and compared with the model's prediction.
//! Used by C19 (differential, all transports), C03 (disconnection histories) and C11
//! (resource balance after arbitrary operation sequences).
#![allow(dead_code)]

use crate::gen::Blob;
use crate::util::*;
use ipc_channel::ipc::{
    self, IpcError, IpcOneShotServer, IpcReceiver, IpcReceiverSet, IpcSelectionResult, IpcSender, IpcSharedMemory, TryRecvError,
};
use serde::{Deserialize, Serialize};
use std::collections::{BTreeMap, VecDeque};
use std::time::Duration;

#[derive(Serialize, Deserialize)]
pub struct PMsg {
    pub id: u64,
    pub data: Blob,
    pub senders: Vec<IpcSender<PMsg>>,
    pub receivers: Vec<IpcReceiver<PMsg>>,
    pub regions: Vec<IpcSharedMemory>,
    /// last field: when set, serialisation fails after every attachment above has been visited
    pub fail: FailIf,
}

pub struct FailIf(pub bool);
impl Serialize for FailIf {
    fn serialize<S: serde::Serializer>(&self, s: S) -> Result<S::Ok, S::Error> {
        if self.0 {
            return Err(serde::ser::Error::custom("deliberate serialisation failure"));
        }
        s.serialize_u8(0)
    }
}
impl<'de> Deserialize<'de> for FailIf {
    fn deserialize<D: serde::Deserializer<'de>>(d: D) -> Result<Self, D::Error> {
        let _ = u8::deserialize(d)?;
        Ok(FailIf(false))
    }
}

// ------------------------------------------------------------------ model

#[derive(Clone, Debug, PartialEq)]
pub enum RxLoc {
    Held,
    InSet(usize),
    Transit,
    Server,
    Dropped,
}

#[derive(Clone, Debug)]
pub struct MMsg {
    pub id: u64,
    pub len: usize,
    pub senders: Vec<usize>,
    pub receivers: Vec<usize>,
    pub regions: Vec<(u64, usize)>,
}

#[derive(Clone, Debug)]
pub struct MCh {
    pub queue: VecDeque<MMsg>,
    pub senders: usize,
    pub rx: RxLoc,
    pub closed_reported: bool,
}

#[derive(Default, Clone)]
pub struct Model {
    pub chans: Vec<MCh>,
}

impl Model {
    fn new_chan(&mut self, rx: RxLoc, senders: usize) -> usize {
        self.chans.push(MCh { queue: VecDeque::new(), senders, rx, closed_reported: false });
        self.chans.len() - 1
    }
    /// A message that will never be delivered: every handle inside dies.
    fn destroy_msg(&mut self, m: MMsg) {
        for s in m.senders {
            self.chans[s].senders -= 1;
        }
        for r in m.receivers {
            self.drop_receiver(r);
        }
    }
    pub fn drop_receiver(&mut self, ch: usize) {
        self.chans[ch].rx = RxLoc::Dropped;
        let q: Vec<MMsg> = self.chans[ch].queue.drain(..).collect();
        for m in q {
            self.destroy_msg(m);
        }
    }
    pub fn disconnected(&self, ch: usize) -> bool {
        self.chans[ch].queue.is_empty() && self.chans[ch].senders == 0
    }
    pub fn rx_alive(&self, ch: usize) -> bool {
        self.chans[ch].rx != RxLoc::Dropped
    }
}

// ------------------------------------------------------------------ world (real handles)

pub struct World {
    pub senders: Vec<Option<(IpcSender<PMsg>, usize)>>,
    pub receivers: Vec<Option<(IpcReceiver<PMsg>, usize)>>,
    pub sets: Vec<Option<(IpcReceiverSet, BTreeMap<u64, usize>)>>,
    pub servers: Vec<Option<(IpcOneShotServer<PMsg>, String, usize, bool)>>,
    pub regions: Vec<Option<(IpcSharedMemory, u64, usize)>>,
}

impl World {
    pub fn new() -> World {
        World { senders: vec![], receivers: vec![], sets: vec![], servers: vec![], regions: vec![] }
    }
    fn live<T>(v: &[Option<T>]) -> Vec<usize> {
        v.iter().enumerate().filter(|(_, x)| x.is_some()).map(|(i, _)| i).collect()
    }
}

#[derive(Clone, Debug)]
pub struct Bias {
    pub sets: bool,
    pub servers: bool,
    pub regions: bool,
    pub failing_ops: bool, // connect to missing names etc. (C11 only; outcome not model-defined on inproc)
    pub failing_serialize: bool,
    pub max_chans: usize,
    pub ops: usize,
}

#[derive(Debug)]
pub struct Mismatch {
    pub step: usize,
    pub op: String,
    pub expected: String,
    pub got: String,
}

pub struct Outcome {
    pub trace: Vec<String>,
    pub mismatch: Option<Mismatch>,
    pub bursts: usize,
    pub transfers: usize,
    pub drops: usize,
    pub big_dead_sends: usize,
    pub ops_hash: u64,
}

fn norm_send<E: std::fmt::Display>(r: &Result<(), E>) -> String {
    match r {
        Ok(()) => "ok".into(),
        Err(_) => "send-error".into(),
    }
}

fn region_bytes(cid: u64, len: usize) -> Vec<u8> {
    body(cid ^ 0x7e6_0000, len)
}

pub struct Interp {
    pub model: Model,
    pub world: World,
    pub rng: Rng,
    pub bias: Bias,
    pub next_id: u64,
    pub trace: Vec<String>,
    pub ops: Vec<String>,
    pub transfers: usize,
    pub drops: usize,
    pub bursts: usize,
    pub big_dead_sends: usize,
}

impl Interp {
    pub fn new(seed: u64, prog: u64, bias: Bias) -> Interp {
        Interp {
            model: Model::default(),
            world: World::new(),
            rng: Rng::derive(seed, 0x9209, prog),
            bias,
            next_id: prog << 20,
            trace: vec![],
            ops: vec![],
            transfers: 0,
            drops: 0,
            bursts: 0,
            big_dead_sends: 0,
        }
    }

    fn fresh_id(&mut self) -> u64 {
        self.next_id += 1;
        self.next_id
    }

    /// Compare one received message with the model's queue head and adopt its attachments.
    fn adopt(&mut self, ch: usize, m: PMsg) -> Result<String, (String, String)> {
        let exp = match self.model.chans[ch].queue.pop_front() {
            Some(e) => e,
            None => return Err(("no message (queue empty in model)".into(), format!("message id {}", m.id))),
        };
        let got_desc = format!("msg id={} len={} s={} r={} g={}", m.id, m.data.0.len(), m.senders.len(), m.receivers.len(), m.regions.len());
        let exp_desc = format!("msg id={} len={} s={} r={} g={}", exp.id, exp.len, exp.senders.len(), exp.receivers.len(), exp.regions.len());
        if got_desc != exp_desc {
            // put nothing back: the program stops at a mismatch
            return Err((exp_desc, got_desc));
        }
        if let Some(d) = body_diff(exp.id, exp.len, &m.data.0) {
            return Err((exp_desc, format!("payload differs: {}", d)));
        }
        for (i, g) in m.regions.iter().enumerate() {
            let (cid, len) = exp.regions[i];
            if &g[..] != &region_bytes(cid, len)[..] {
                return Err((exp_desc, format!("region {} content differs (len {} vs {})", i, g.len(), len)));
            }
        }
        for (s, c) in m.senders.into_iter().zip(exp.senders.iter()) {
            self.world.senders.push(Some((s, *c)));
        }
        for (r, c) in m.receivers.into_iter().zip(exp.receivers.iter()) {
            self.model.chans[*c].rx = RxLoc::Held;
            self.world.receivers.push(Some((r, *c)));
        }
        for (g, (cid, len)) in m.regions.into_iter().zip(exp.regions.iter()) {
            self.world.regions.push(Some((g, *cid, *len)));
        }
        Ok(exp_desc)
    }

    fn expect(&mut self, op: &str, expected: String, got: String) -> Result<(), Mismatch> {
        self.trace.push(format!("{} -> {}", op, got));
        if expected != got {
            return Err(Mismatch { step: self.ops.len(), op: op.to_string(), expected, got });
        }
        Ok(())
    }

    /// Build a message for channel `ch` (acyclic rule: only handles of channels > ch are embedded).
    fn build_msg(&mut self, ch: usize) -> (PMsg, MMsg) {
        let id = self.fresh_id();
        let qlen = self.model.chans[ch].queue.len();
        // a send to a receiver that no longer exists must fail and queues nothing, so a multi-packet payload is
        // safe there (single thread): the failing first packet of a fragmented send is a path of its own
        let dead = !self.model.rx_alive(ch);
        let mut big_dead = false;
        let len = if dead && self.rng.chance(350) {
            big_dead = true;
            static F1: std::sync::OnceLock<u64> = std::sync::OnceLock::new();
            let f1 = *F1.get_or_init(|| crate::c01::sizes().f1 as u64);
            self.big_dead_sends += 1;
            self.rng.range(f1 + 1, 3 * f1)
        } else if qlen < 8 && self.rng.chance(150) {
            self.rng.range(1024, 4096)
        } else {
            self.rng.below(700)
        } as usize;
        // under Miri the same program (same random draws, same nominal length in the trace) carries a short body:
        // the message is never delivered, and a 600 KB body costs the interpreter minutes
        let data_len = if cfg!(miri) && big_dead { 2048 } else { len };
        let mut m = PMsg { id, data: Blob(body(id, data_len)), senders: vec![], receivers: vec![], regions: vec![], fail: FailIf(false) };
        let mut mm = MMsg { id, len, senders: vec![], receivers: vec![], regions: vec![] };
        if self.rng.chance(450) {
            // embed sender handles (moved or cloned) of higher channels
            let cands: Vec<usize> = World::live(&self.world.senders).into_iter().filter(|&i| self.world.senders[i].as_ref().unwrap().1 > ch).collect();
            for &i in cands.iter().take(3) {
                if self.rng.chance(500) {
                    let c = self.world.senders[i].as_ref().unwrap().1;
                    if self.rng.chance(500) {
                        let (s, _) = self.world.senders[i].take().unwrap();
                        m.senders.push(s);
                    } else {
                        m.senders.push(self.world.senders[i].as_ref().unwrap().0.clone());
                        self.model.chans[c].senders += 1;
                    }
                    mm.senders.push(c);
                }
            }
        }
        if self.rng.chance(250) {
            let cands: Vec<usize> = World::live(&self.world.receivers).into_iter().filter(|&i| self.world.receivers[i].as_ref().unwrap().1 > ch).collect();
            for &i in cands.iter().take(2) {
                if self.rng.chance(500) {
                    let (r, c) = self.world.receivers[i].take().unwrap();
                    self.model.chans[c].rx = RxLoc::Transit;
                    m.receivers.push(r);
                    mm.receivers.push(c);
                }
            }
        }
        if self.bias.regions && self.rng.chance(200) {
            let cands = World::live(&self.world.regions);
            for &i in cands.iter().take(2) {
                let (g, cid, len) = self.world.regions[i].as_ref().unwrap();
                m.regions.push(g.clone());
                mm.regions.push((*cid, *len));
            }
        }
        if !mm.senders.is_empty() || !mm.receivers.is_empty() {
            self.transfers += 1;
        }
        (m, mm)
    }

    fn do_send(&mut self, si: usize) -> Result<(), Mismatch> {
        let ch = self.world.senders[si].as_ref().unwrap().1;
        let (m, mm) = self.build_msg(ch);
        let op = format!("send s{} ch{} id={} len={} embeds s{:?} r{:?} g{}", si, ch, mm.id, mm.len, mm.senders, mm.receivers, mm.regions.len());
        self.ops.push(op.clone());
        let alive = self.model.rx_alive(ch);
        // now and then the value cannot be serialised: nothing is sent, every handle in it dies
        let fails = self.bias.failing_serialize && self.rng.chance(40);
        let mut m = m;
        if fails {
            m.fail = FailIf(true);
        }
        let op = if fails { format!("{} [serialisation fails]", op) } else { op };
        let r = self.world.senders[si].as_ref().unwrap().0.send(m);
        let got = norm_send(&r);
        if fails {
            self.model.destroy_msg(mm);
            return self.expect(&op, "send-error".into(), got);
        }
        if alive {
            self.model.chans[ch].queue.push_back(mm);
            self.expect(&op, "ok".into(), got)
        } else {
            self.model.destroy_msg(mm);
            self.expect(&op, "send-error".into(), got)
        }
    }

    fn recv_prediction(&self, ch: usize) -> &'static str {
        if !self.model.chans[ch].queue.is_empty() {
            "msg"
        } else if self.model.chans[ch].senders == 0 {
            "disconnected"
        } else {
            "empty"
        }
    }

    fn do_recv(&mut self, ri: usize, how: u8) -> Result<(), Mismatch> {
        let ch = self.world.receivers[ri].as_ref().unwrap().1;
        let pred = self.recv_prediction(ch);
        let name = ["recv", "try_recv", "try_recv_timeout"][how as usize];
        let op = format!("{} r{} ch{}", name, ri, ch);
        self.ops.push(op.clone());
        enum R {
            Msg(PMsg),
            Empty,
            Disc,
            Other(String),
        }
        let rx = &self.world.receivers[ri].as_ref().unwrap().0;
        let res = match how {
            0 => match rx.recv() {
                Ok(m) => R::Msg(m),
                Err(IpcError::Disconnected) => R::Disc,
                Err(e) => R::Other(format!("error:{:?}", e)),
            },
            _ => {
                let r = if how == 1 { rx.try_recv() } else { rx.try_recv_timeout(Duration::from_millis(self.rng.below(3))) };
                match r {
                    Ok(m) => R::Msg(m),
                    Err(TryRecvError::Empty) => R::Empty,
                    Err(TryRecvError::IpcError(IpcError::Disconnected)) => R::Disc,
                    Err(e) => R::Other(format!("error:{:?}", e)),
                }
            },
        };
        match res {
            R::Msg(m) => {
                if pred != "msg" {
                    return self.expect(&op, pred.into(), format!("msg id={}", m.id));
                }
                match self.adopt(ch, m) {
                    Ok(d) => self.expect(&op, d.clone(), d),
                    Err((e, g)) => self.expect(&op, e, g),
                }
            },
            R::Empty => {
                let e = if pred == "msg" { format!("msg id={}", self.model.chans[ch].queue[0].id) } else { pred.to_string() };
                self.expect(&op, e, "empty".into())
            },
            R::Disc => {
                let e = if pred == "msg" { format!("msg id={}", self.model.chans[ch].queue[0].id) } else { pred.to_string() };
                self.expect(&op, e, "disconnected".into())
            },
            R::Other(s) => self.expect(&op, pred.into(), s),
        }
    }

    fn set_pending(&self, si: usize) -> usize {
        let (_, members) = self.world.sets[si].as_ref().unwrap();
        members
            .values()
            .map(|&ch| {
                let c = &self.model.chans[ch];
                c.queue.len() + if c.senders == 0 && !c.closed_reported { 1 } else { 0 }
            })
            .sum()
    }

    /// One "drain" step: select repeatedly until every event the model says is pending was seen.
    fn do_drain(&mut self, si: usize) -> Result<(), Mismatch> {
        let op = format!("drain set{}", si);
        self.ops.push(op.clone());
        // prediction: per member, ordered ids then closed flag
        let members: BTreeMap<u64, usize> = self.world.sets[si].as_ref().unwrap().1.clone();
        let mut expected: BTreeMap<usize, (Vec<u64>, bool)> = BTreeMap::new();
        for &ch in members.values() {
            let c = &self.model.chans[ch];
            let ids: Vec<u64> = c.queue.iter().map(|m| m.id).collect();
            // handles inside queued messages of *this* drain may close other members only after extraction,
            // and extraction never drops handles, so closure status is fixed before the drain starts
            let closed = c.senders == 0 && !c.closed_reported;
            if !ids.is_empty() || closed {
                expected.insert(ch, (ids, closed));
            }
        }
        let mut got: BTreeMap<usize, (Vec<u64>, bool)> = BTreeMap::new();
        let mut stash: BTreeMap<usize, Vec<PMsg>> = BTreeMap::new();
        let mut remaining = self.set_pending(si);
        let mut rounds = 0;
        while remaining > 0 {
            rounds += 1;
            if rounds > 500 {
                break;
            }
            // select on a helper thread: if the implementation lost an event the call never returns,
            // and in this single-threaded program nothing could ever wake it (logical hang, 3.5)
            let evs = {
                let (setv, mem) = self.world.sets[si].take().unwrap();
                match watch("select", 5_000, &|| true, move || {
                    let mut s = setv;
                    let r = s.select();
                    (s, r)
                }) {
                    Watch::Done((s, r)) => {
                        self.world.sets[si] = Some((s, mem));
                        match r {
                            Ok(e) => e,
                            Err(e) => return self.expect(&op, format!("{:?}", expected), format!("select-error:{}", e)),
                        }
                    },
                    Watch::Stuck(why) => {
                        return self.expect(&op, format!("{:?}", expected), format!("select-blocks-with-events-pending: got so far {:?}; {}", got, why));
                    },
                    Watch::Unknown(why) => return self.expect(&op, format!("{:?}", expected), format!("select-undecided: {}", why)),
                    Watch::Panicked(p) => return self.expect(&op, format!("{:?}", expected), format!("select-panicked: {}", p)),
                }
            };
            if evs.is_empty() {
                return self.expect(&op, format!("{:?}", expected), "select returned no event".into());
            }
            for ev in evs {
                remaining = remaining.saturating_sub(1);
                match ev {
                    IpcSelectionResult::MessageReceived(id, om) => {
                        let ch = match members.get(&id) {
                            Some(c) => *c,
                            None => return self.expect(&op, format!("{:?}", expected), format!("event for unknown id {}", id)),
                        };
                        let m: PMsg = match om.to() {
                            Ok(m) => m,
                            Err(e) => return self.expect(&op, format!("{:?}", expected), format!("decode-error:{}", e)),
                        };
                        if got.get(&ch).map(|g| g.1).unwrap_or(false) {
                            return self.expect(&op, format!("{:?}", expected), format!("message id {} on ch{} after its ChannelClosed", m.id, ch));
                        }
                        got.entry(ch).or_insert((vec![], false)).0.push(m.id);
                        stash.entry(ch).or_default().push(m);
                    },
                    IpcSelectionResult::ChannelClosed(id) => {
                        let ch = match members.get(&id) {
                            Some(c) => *c,
                            None => return self.expect(&op, format!("{:?}", expected), format!("closed for unknown id {}", id)),
                        };
                        let exp_closed = expected.get(&ch).map(|e| e.1).unwrap_or(false);
                        if !exp_closed || got.get(&ch).map(|g| g.1).unwrap_or(false) {
                            return self.expect(&op, format!("{:?}", expected), format!("unexpected ChannelClosed for ch{}", ch));
                        }
                        self.model.chans[ch].closed_reported = true;
                        self.world.sets[si].as_mut().unwrap().1.remove(&id);
                        got.entry(ch).or_insert((vec![], false)).1 = true;
                    },
                }
            }
        }
        // adopt attachments in a canonical order (by channel, then queue order) so that the
        // program stays identical across transports whatever the event interleaving was
        for (ch, msgs) in stash {
            for m in msgs {
                if let Err((e, g)) = self.adopt(ch, m) {
                    return self.expect(&op, e, g);
                }
            }
        }
        for (ch, g) in got.iter() {
            if g.1 {
                self.model.chans[*ch].rx = RxLoc::Dropped;
            }
        }
        self.expect(&op, format!("{:?}", expected), format!("{:?}", got))
    }

    /// Generate and execute one step. Returns Ok(false) when nothing is enabled.
    pub fn step(&mut self) -> Result<bool, Mismatch> {
        let live_s = World::live(&self.world.senders);
        let live_r = World::live(&self.world.receivers);
        let live_sets = World::live(&self.world.sets);
        let live_srv = World::live(&self.world.servers);
        let live_g = World::live(&self.world.regions);
        let nlive_ch = self.model.chans.iter().filter(|c| c.rx != RxLoc::Dropped || c.senders > 0).count();
        for _ in 0..40 {
            let mut k = self.rng.below(100);
            // a live one-shot server makes the rendezvous steps more likely (they are rare otherwise)
            if !live_srv.is_empty() && self.rng.chance(120) {
                k = 96 + self.rng.below(2);
            }
            match k {
                0..=9 => {
                    if nlive_ch < self.bias.max_chans && self.model.chans.len() < 40 {
                        let ch = self.model.new_chan(RxLoc::Held, 1);
                        let (tx, rx) = must("channel", ipc::channel::<PMsg>());
                        self.world.senders.push(Some((tx, ch)));
                        self.world.receivers.push(Some((rx, ch)));
                        self.ops.push(format!("channel ch{}", ch));
                        self.trace.push(format!("channel ch{}", ch));
                        return Ok(true);
                    }
                },
                10..=16 => {
                    if let Some(&si) = live_s.get(self.rng.below(live_s.len().max(1) as u64) as usize) {
                        let (s, ch) = self.world.senders[si].as_ref().unwrap();
                        let (s2, ch) = (s.clone(), *ch);
                        self.model.chans[ch].senders += 1;
                        self.world.senders.push(Some((s2, ch)));
                        self.ops.push(format!("clone s{} ch{}", si, ch));
                        self.trace.push(format!("clone ch{}", ch));
                        return Ok(true);
                    }
                },
                17..=26 => {
                    if !live_s.is_empty() {
                        let si = *self.rng.pick(&live_s);
                        let (_s, ch) = self.world.senders[si].take().unwrap();
                        self.model.chans[ch].senders -= 1;
                        self.drops += 1;
                        self.ops.push(format!("drop-sender s{} ch{}", si, ch));
                        self.trace.push(format!("drop-sender ch{}", ch));
                        return Ok(true);
                    }
                },
                27..=30 => {
                    if !live_r.is_empty() {
                        let ri = *self.rng.pick(&live_r);
                        let (_r, ch) = self.world.receivers[ri].take().unwrap();
                        self.model.drop_receiver(ch);
                        self.drops += 1;
                        self.ops.push(format!("drop-receiver r{} ch{}", ri, ch));
                        self.trace.push(format!("drop-receiver ch{}", ch));
                        return Ok(true);
                    }
                },
                31..=58 => {
                    // send on a channel whose queue is short
                    let cands: Vec<usize> = live_s
                        .iter()
                        .cloned()
                        .filter(|&i| self.model.chans[self.world.senders[i].as_ref().unwrap().1].queue.len() < 40)
                        .collect();
                    if !cands.is_empty() {
                        let si = *self.rng.pick(&cands);
                        // now and then a burst on a member of a receiver set: dozens of messages queue up
                        // behind each other before the set is polled again, then nothing follows
                        let ch = self.world.senders[si].as_ref().unwrap().1;
                        if matches!(self.model.chans[ch].rx, RxLoc::InSet(_)) && self.rng.chance(40) {
                            let n = self.rng.range(34, 70);
                            self.bursts += 1;
                            for _ in 0..n {
                                self.do_send(si)?;
                            }
                            return Ok(true);
                        }
                        return self.do_send(si).map(|_| true);
                    }
                },
                59..=66 => {
                    // blocking recv where the model says it cannot block
                    let cands: Vec<usize> = live_r.iter().cloned().filter(|&i| self.recv_prediction(self.world.receivers[i].as_ref().unwrap().1) != "empty").collect();
                    if !cands.is_empty() {
                        let ri = *self.rng.pick(&cands);
                        return self.do_recv(ri, 0).map(|_| true);
                    }
                },
                67..=76 => {
                    if !live_r.is_empty() {
                        let ri = *self.rng.pick(&live_r);
                        return self.do_recv(ri, 1).map(|_| true);
                    }
                },
                77..=80 => {
                    if !live_r.is_empty() {
                        let ri = *self.rng.pick(&live_r);
                        return self.do_recv(ri, 2).map(|_| true);
                    }
                },
                81..=83 => {
                    if self.bias.sets && live_sets.len() < 2 {
                        let set = must("set", IpcReceiverSet::new());
                        self.world.sets.push(Some((set, BTreeMap::new())));
                        self.ops.push("new-set".into());
                        self.trace.push("new-set".into());
                        return Ok(true);
                    }
                },
                84..=87 => {
                    if !live_sets.is_empty() && !live_r.is_empty() {
                        let si = *self.rng.pick(&live_sets);
                        let ri = *self.rng.pick(&live_r);
                        let (r, ch) = self.world.receivers[ri].take().unwrap();
                        let (set, members) = self.world.sets[si].as_mut().unwrap();
                        let id = must("set.add", set.add(r));
                        let dup = members.contains_key(&id);
                        members.insert(id, ch);
                        self.model.chans[ch].rx = RxLoc::InSet(si);
                        let op = format!("add r{} ch{} to set{}", ri, ch, si);
                        self.ops.push(op.clone());
                        return self.expect(&op, "fresh-id".into(), if dup { format!("id {} already in use by a live member", id) } else { "fresh-id".into() }).map(|_| true);
                    }
                },
                88..=92 => {
                    let cands: Vec<usize> = live_sets.iter().cloned().filter(|&i| self.set_pending(i) > 0).collect();
                    if !cands.is_empty() {
                        let si = *self.rng.pick(&cands);
                        return self.do_drain(si).map(|_| true);
                    }
                },
                93 => {
                    if !live_sets.is_empty() && self.rng.chance(300) {
                        let si = *self.rng.pick(&live_sets);
                        let (_set, members) = self.world.sets[si].take().unwrap();
                        for &ch in members.values() {
                            self.model.drop_receiver(ch);
                        }
                        self.drops += 1;
                        self.ops.push(format!("drop-set set{}", si));
                        self.trace.push(format!("drop-set members={}", members.len()));
                        return Ok(true);
                    }
                },
                94..=95 => {
                    if self.bias.servers && live_srv.len() < 2 && nlive_ch < self.bias.max_chans {
                        let (srv, name) = must("one-shot server", IpcOneShotServer::<PMsg>::new());
                        let ch = self.model.new_chan(RxLoc::Server, 0);
                        self.world.servers.push(Some((srv, name, ch, false)));
                        self.ops.push(format!("new-server ch{}", ch));
                        self.trace.push(format!("new-server ch{}", ch));
                        return Ok(true);
                    }
                },
                96 => {
                    // connect (once per live server)
                    let cands: Vec<usize> = live_srv.iter().cloned().filter(|&i| !self.world.servers[i].as_ref().unwrap().3).collect();
                    if !cands.is_empty() {
                        let vi = *self.rng.pick(&cands);
                        let (name, ch) = {
                            let s = self.world.servers[vi].as_mut().unwrap();
                            s.3 = true;
                            (s.1.clone(), s.2)
                        };
                        let op = format!("connect server{} ch{}", vi, ch);
                        self.ops.push(op.clone());
                        match IpcSender::<PMsg>::connect(name) {
                            Ok(tx) => {
                                self.model.chans[ch].senders += 1;
                                self.world.senders.push(Some((tx, ch)));
                                return self.expect(&op, "ok".into(), "ok".into()).map(|_| true);
                            },
                            Err(e) => return self.expect(&op, "ok".into(), format!("connect-error:{}", e)).map(|_| true),
                        }
                    }
                },
                97 => {
                    // accept where the model says the first message is already queued
                    let cands: Vec<usize> = live_srv.iter().cloned().filter(|&i| !self.model.chans[self.world.servers[i].as_ref().unwrap().2].queue.is_empty()).collect();
                    if !cands.is_empty() {
                        let vi = *self.rng.pick(&cands);
                        let (srv, _name, ch, _c) = self.world.servers[vi].take().unwrap();
                        let op = format!("accept server{} ch{}", vi, ch);
                        self.ops.push(op.clone());
                        match srv.accept() {
                            Ok((rx, m)) => {
                                self.model.chans[ch].rx = RxLoc::Held;
                                self.world.receivers.push(Some((rx, ch)));
                                return match self.adopt(ch, m) {
                                    Ok(d) => self.expect(&op, d.clone(), d),
                                    Err((e, g)) => self.expect(&op, e, g),
                                }
                                .map(|_| true);
                            },
                            Err(e) => return self.expect(&op, "msg".into(), format!("accept-error:{}", e)).map(|_| true),
                        }
                    } else if !live_srv.is_empty() && self.rng.chance(150) {
                        let vi = *self.rng.pick(&live_srv);
                        let (_srv, _name, ch, _c) = self.world.servers[vi].take().unwrap();
                        self.model.drop_receiver(ch);
                        self.drops += 1;
                        self.ops.push(format!("drop-server server{} ch{}", vi, ch));
                        self.trace.push(format!("drop-server ch{}", ch));
                        return Ok(true);
                    }
                },
                _ => {
                    if self.bias.failing_ops && self.rng.chance(350) {
                        return self.do_failing_op(&live_srv).map(|_| true);
                    }
                    if self.bias.regions {
                        if live_g.len() < 3 && self.rng.chance(600) {
                            let cid = self.fresh_id();
                            let len = *self.rng.pick(&[0usize, 1, 100, 4095, 4096, 4097, 9000]);
                            let g = if self.rng.chance(300) && len > 0 {
                                // from_byte variant: constant content
                                IpcSharedMemory::from_bytes(&region_bytes(cid, len))
                            } else {
                                IpcSharedMemory::from_bytes(&region_bytes(cid, len))
                            };
                            self.world.regions.push(Some((g, cid, len)));
                            self.ops.push(format!("new-region len={}", len));
                            self.trace.push(format!("new-region len={}", len));
                            return Ok(true);
                        } else if !live_g.is_empty() && live_g.len() < 6 && self.rng.chance(400) {
                            let gi = *self.rng.pick(&live_g);
                            let (g, cid, len) = self.world.regions[gi].as_ref().unwrap();
                            let c = (g.clone(), *cid, *len);
                            let op = format!("clone-region g{}", gi);
                            self.ops.push(op.clone());
                            let ok = &c.0[..] == &region_bytes(c.1, c.2)[..];
                            self.world.regions.push(Some(c));
                            return self.expect(&op, "same-content".into(), if ok { "same-content".into() } else { "content differs".into() }).map(|_| true);
                        } else if !live_g.is_empty() {
                            let gi = *self.rng.pick(&live_g);
                            self.world.regions[gi] = None;
                            self.ops.push(format!("drop-region g{}", gi));
                            self.trace.push("drop-region".into());
                            return Ok(true);
                        }
                    }
                },
            }
        }
        Ok(false)
    }

    /// Operations that must fail (C11): they change nothing in the model except where noted.
    fn do_failing_op(&mut self, live_srv: &[usize]) -> Result<(), Mismatch> {
        let m = mon();
        match self.rng.below(6) {
            0 => {
                let name = std::env::temp_dir().join(format!("no-such-dir-{}", self.fresh_id())).join("socket").to_string_lossy().into_owned();
                let op = "connect-missing-name".to_string();
                self.ops.push(op.clone());
                let r = IpcSender::<PMsg>::connect(name);
                self.expect(&op, "error".into(), if r.is_ok() { "ok".into() } else { "error".into() })
            },
            1 if m.is_some() => {
                let op = "channel-with-socketpair-failure".to_string();
                self.ops.push(op.clone());
                m.unwrap().fail_next(C_SOCKETPAIR, libc::EMFILE, 0);
                let r = ipc::channel::<PMsg>();
                m.unwrap().fail_next(0, 0, 0);
                self.expect(&op, "error".into(), if r.is_ok() { "ok".into() } else { "error".into() })
            },
            2 | 3 if m.is_some() => {
                let which = if self.rng.chance(500) { (C_BIND, "bind") } else { (C_LISTEN, "listen") };
                let op = format!("server-with-{}-failure", which.1);
                self.ops.push(op.clone());
                m.unwrap().fail_next(which.0, libc::EADDRINUSE, 0);
                let r = IpcOneShotServer::<PMsg>::new();
                m.unwrap().fail_next(0, 0, 0);
                self.expect(&op, "error".into(), if r.is_ok() { "ok".into() } else { "error".into() })
            },
            4 if m.is_some() => {
                // accept whose socket option call fails: the server is consumed, its channel is gone
                let cands: Vec<usize> = live_srv.iter().cloned().filter(|&i| !self.model.chans[self.world.servers[i].as_ref().unwrap().2].queue.is_empty()).collect();
                if cands.is_empty() {
                    return Ok(());
                }
                let vi = *self.rng.pick(&cands);
                let (srv, _name, ch, _c) = self.world.servers[vi].take().unwrap();
                let op = format!("accept-with-setsockopt-failure server{} ch{}", vi, ch);
                self.ops.push(op.clone());
                m.unwrap().fail_next(C_SETSOCKOPT, libc::ENOBUFS, 0);
                let r = srv.accept();
                m.unwrap().fail_next(0, 0, 0);
                self.model.drop_receiver(ch);
                self.drops += 1;
                self.expect(&op, "error".into(), if r.is_ok() { "ok".into() } else { "error".into() })
            },
            _ => {
                // send on a channel whose receiver is gone (if any)
                let cands: Vec<usize> = World::live(&self.world.senders).into_iter().filter(|&i| !self.model.rx_alive(self.world.senders[i].as_ref().unwrap().1)).collect();
                if cands.is_empty() {
                    return Ok(());
                }
                let si = *self.rng.pick(&cands);
                self.do_send(si)
            },
        }
    }

    pub fn run(mut self) -> (Outcome, World, Model) {
        let mut mismatch = None;
        for _ in 0..self.bias.ops {
            match self.step() {
                Ok(true) => {},
                Ok(false) => break,
                Err(m) => {
                    mismatch = Some(m);
                    break;
                },
            }
        }
        let ops_hash = hash_of(&self.ops);
        (Outcome { trace: self.trace, mismatch, bursts: self.bursts, transfers: self.transfers, drops: self.drops, big_dead_sends: self.big_dead_sends, ops_hash }, self.world, self.model)
    }
}

pub fn ops_of(seed: u64, prog: u64, bias: &Bias) -> Vec<String> {
    // regenerate the op list of a program (for samples / replays) by running it again
    let it = Interp::new(seed, prog, bias.clone());
    let mut it = it;
    for _ in 0..bias.ops {
        match it.step() {
            Ok(true) => {},
            _ => break,
        }
    }
    it.ops
}
