//! C02 — exactly once, whole, in send order (real-time order across handles).
//!
//! History recorder at the client boundary: every send is stamped before the call and
//! after the return (CLOCK_MONOTONIC, comparable across processes); the receiver logs the
//! delivery order. Offline checker: body integrity, multiset equality, and the real-time
//! order clause `ret(a) < call(b)  =>  a delivered before b` in O(n).

use crate::c01::{sizes, Sizes};
use crate::gen::Blob;
use crate::util::*;
use crate::Ctx;
use ipc_channel::ipc::{self, IpcOneShotServer, IpcReceiverSet, IpcSelectionResult, IpcSender, TryRecvError};
use serde_json::json;
use std::collections::HashMap;
use std::io::Write;
use std::sync::atomic::{AtomicBool, AtomicU64, AtomicUsize, Ordering};
use std::sync::{Arc, Mutex};
use std::time::Duration;

pub type Msg = (u32, u32, Blob);
const RMODES: [&str; 4] = ["recv", "delayed-recv", "try_recv", "set"];

#[derive(Clone, Debug)]
pub struct SendRec {
    pub sender: u32,
    pub seq: u32,
    pub len: usize,
    pub call: u64,
    pub ret: u64,
    pub ok: bool,
    pub err: String,
}

#[derive(Clone, Debug)]
pub struct RecvRec {
    pub sender: u32,
    pub seq: u32,
    pub len: usize,
    pub body_ok: bool,
    pub diff: String,
    pub at: u64,
}

fn mid(hist: u64, sender: u32, seq: u32) -> u64 {
    (hist << 40) ^ ((sender as u64) << 24) ^ seq as u64 ^ 0xc020_0000_0000_0000
}

#[derive(Clone, Debug)]
struct SenderPlan {
    idx: u32,
    lens: Vec<usize>,
    kind: u8, // 0 thread with clone, 1 thread that receives its clone through another channel, 2 process
    baton: bool,
}

fn gen_lens(r: &mut Rng, sz: &Sizes, n: usize, multi_permille: u64) -> Vec<usize> {
    // encoded size = 16 + len; pick lens so the encoded message sits on interesting sizes
    let f1 = sz.f1.saturating_sub(16);
    (0..n)
        .map(|_| {
            if r.chance(multi_permille) {
                match r.below(6) {
                    0 => f1 - 1,
                    1 => f1,
                    2 => f1 + 1,
                    3 => f1 + sz.f2,
                    _ => f1 + r.range(1, 5 * sz.f2 as u64) as usize,
                }
            } else {
                match r.below(5) {
                    0 => 0,
                    1 => r.below(64) as usize,
                    _ => r.below(f1 as u64 / 2) as usize,
                }
            }
        })
        .collect()
}

fn do_sends(tx: &IpcSender<Msg>, hist: u64, p: &SenderPlan, baton: Option<&AtomicUsize>, slots: &[(u32, u32)], log: &mut Vec<SendRec>) {
    for (seq, &len) in p.lens.iter().enumerate() {
        let seq = seq as u32;
        if let Some(b) = baton {
            // wait for my turn in the global happens-before chain
            if let Some(pos) = slots.iter().position(|s| *s == (p.idx, seq)) {
                while b.load(Ordering::SeqCst) != pos {
                    std::thread::yield_now();
                }
            }
        }
        let blob = Blob(body(mid(hist, p.idx, seq), len));
        let call = now_ns();
        let r = tx.send((p.idx, seq, blob));
        let ret = now_ns();
        log.push(SendRec { sender: p.idx, seq, len, call, ret, ok: r.is_ok(), err: r.err().map(|e| e.to_string()).unwrap_or_default() });
        if let Some(b) = baton {
            if slots.iter().any(|s| *s == (p.idx, seq)) {
                b.fetch_add(1, Ordering::SeqCst);
            }
        }
    }
}

/// Child process sender.
pub fn role_sender(args: &[String]) -> i32 {
    let name = args[0].clone();
    let hist: u64 = args[1].parse().unwrap();
    let idx: u32 = args[2].parse().unwrap();
    let lens: Vec<usize> = args[3].split(',').filter(|s| !s.is_empty()).map(|s| s.parse().unwrap()).collect();
    let stamps = args[4].clone();
    let (btx, brx) = ipc::channel::<IpcSender<Msg>>().unwrap();
    let boot: IpcSender<IpcSender<IpcSender<Msg>>> = IpcSender::connect(name).unwrap();
    boot.send(btx).unwrap();
    let tx = brx.recv().unwrap();
    let p = SenderPlan { idx, lens, kind: 2, baton: false };
    let mut log = Vec::new();
    do_sends(&tx, hist, &p, None, &[], &mut log);
    let mut f = std::fs::File::create(stamps).unwrap();
    for s in &log {
        writeln!(f, "{} {} {} {} {} {} {}", s.sender, s.seq, s.len, s.call, s.ret, s.ok as u8, s.err.replace(' ', "_")).unwrap();
    }
    0
}

fn read_stamps(path: &str) -> Vec<SendRec> {
    let mut v = Vec::new();
    if let Ok(s) = std::fs::read_to_string(path) {
        for l in s.lines() {
            let f: Vec<&str> = l.split(' ').collect();
            if f.len() >= 6 {
                v.push(SendRec {
                    sender: f[0].parse().unwrap(),
                    seq: f[1].parse().unwrap(),
                    len: f[2].parse().unwrap(),
                    call: f[3].parse().unwrap(),
                    ret: f[4].parse().unwrap(),
                    ok: f[5] == "1",
                    err: f.get(6).unwrap_or(&"").to_string(),
                });
            }
        }
    }
    v
}

pub struct Verdict {
    pub problems: Vec<(String, serde_json::Value)>,
    pub ordered_pairs_cross: u64,
    pub overlapping_multi: u64,
    pub order_hash: u64,
}

/// The offline history checker.
pub fn check_history(sz: &Sizes, sends: &[SendRec], recvs: &[RecvRec], drained: bool) -> Verdict {
    let mut problems = Vec::new();
    let mut by_id: HashMap<(u32, u32), &SendRec> = HashMap::new();
    for s in sends {
        by_id.insert((s.sender, s.seq), s);
    }
    // 1. integrity + exactly once
    let mut seen: HashMap<(u32, u32), usize> = HashMap::new();
    for (pos, r) in recvs.iter().enumerate() {
        if !r.body_ok {
            problems.push(("body-corrupt".to_string(), json!({"pos": pos, "sender": r.sender, "seq": r.seq, "len": r.len, "diff": r.diff})));
        }
        match by_id.get(&(r.sender, r.seq)) {
            None => problems.push(("unknown-message".to_string(), json!({"pos": pos, "sender": r.sender, "seq": r.seq}))),
            Some(s) => {
                if s.len != r.len {
                    problems.push(("length-differs".to_string(), json!({"pos": pos, "sender": r.sender, "seq": r.seq, "sent": s.len, "got": r.len})));
                }
            },
        }
        let c = seen.entry((r.sender, r.seq)).or_insert(0);
        *c += 1;
        if *c == 2 {
            problems.push(("duplicate".to_string(), json!({"pos": pos, "sender": r.sender, "seq": r.seq})));
        }
    }
    if drained {
        for s in sends {
            if s.ok && !seen.contains_key(&(s.sender, s.seq)) {
                problems.push(("lost".to_string(), json!({"sender": s.sender, "seq": s.seq, "len": s.len})));
            }
        }
    }
    for s in sends {
        if !s.ok {
            // the receiver was alive for the whole history: a failed send is not delivery-related,
            // but success may not be reported as an error either
            problems.push(("send-error".to_string(), json!({"sender": s.sender, "seq": s.seq, "len": s.len, "err": s.err})));
        }
    }
    // 2. real-time order: scanning from the end, no later-delivered message may have been
    //    completely sent before this one's send began.
    let mut min_ret = u64::MAX;
    let mut min_who = (0u32, 0u32);
    for r in recvs.iter().rev() {
        if let Some(s) = by_id.get(&(r.sender, r.seq)) {
            if min_ret < s.call {
                problems.push((
                    "order".to_string(),
                    json!({"delivered_first": {"sender": r.sender, "seq": r.seq, "call": s.call},
                        "delivered_later": {"sender": min_who.0, "seq": min_who.1, "ret": min_ret},
                        "gap_ns": s.call - min_ret, "same_sender": min_who.0 == r.sender}),
                ));
            }
            if s.ret < min_ret {
                min_ret = s.ret;
                min_who = (r.sender, r.seq);
            }
        }
    }
    // coverage: ordered pairs across different senders (counted on adjacent-in-time sends), overlapping multi-packet sends
    let mut sorted: Vec<&SendRec> = sends.iter().collect();
    sorted.sort_by_key(|s| s.call);
    let mut cross = 0u64;
    let mut overlap = 0u64;
    for w in sorted.windows(2) {
        if w[0].ret < w[1].call && w[0].sender != w[1].sender {
            cross += 1;
        }
    }
    let multi: Vec<&&SendRec> = sorted.iter().filter(|s| 16 + s.len > sz.f1).collect();
    for i in 0..multi.len() {
        for j in i + 1..multi.len() {
            if multi[j].call > multi[i].ret {
                break;
            }
            if multi[i].sender != multi[j].sender {
                overlap += 1;
            }
        }
    }
    let order: Vec<u32> = recvs.iter().map(|r| r.sender).collect();
    Verdict { problems, ordered_pairs_cross: cross, overlapping_multi: overlap, order_hash: hash_of(&order) }
}

fn decode(hist: u64, m: Msg) -> RecvRec {
    let (sender, seq, blob) = m;
    let d = body_diff(mid(hist, sender, seq), blob.0.len(), &blob.0);
    RecvRec { sender, seq, len: blob.0.len(), body_ok: d.is_none(), diff: d.unwrap_or_default(), at: now_ns() }
}

pub fn run_history(ctx: &Ctx, sz: &Sizes, hist: u64) {
    let rep = &ctx.rep;
    let mut r = Rng::derive(ctx.seed, 0xc02, hist);
    let nsenders = r.range(1, 8) as usize;
    let small_buf = sz.sndbuf < 100_000;
    let per = if small_buf { r.range(5, if ctx.thorough { 200 } else { 80 }) } else { r.range(5, 30) } as usize;
    let multi_pm = *r.pick(&[0u64, 150, 400, 800]);
    let use_baton = r.chance(400);
    let rmode = r.below(4); // 0 eager recv, 1 delayed, 2 try_recv polling, 3 set
    let mut plans: Vec<SenderPlan> = Vec::new();
    for i in 0..nsenders {
        // 0 thread with a clone, 1 thread whose clone travelled through a channel, 2 exec'd process that is
        // handed a handle, 3 fork()ed process that inherits a copy of the original handle
        let kind = if is_os() && r.chance(200) { 2 } else if is_os() && r.chance(120) { 3 } else if r.chance(300) { 1 } else { 0 };
        plans.push(SenderPlan { idx: i as u32, lens: gen_lens(&mut r, sz, per, multi_pm), kind, baton: use_baton && kind < 2 });
    }
    // in one history out of five, one sender's plan contains one message of several MiB (a size
    // class of its own on every transport), in flight while the other senders keep sending
    if r.chance(200) && !small_buf {
        let k = r.below(plans.len() as u64) as usize;
        if !plans[k].lens.is_empty() {
            let at = r.below(plans[k].lens.len() as u64) as usize;
            plans[k].lens[at] = (4 << 20) + r.range(1, 6 << 20) as usize;
        }
    }
    // baton slots: a global chain over some (sender, seq) pairs of the baton-enabled thread senders, consistent with per-sender order
    let mut slots: Vec<(u32, u32)> = Vec::new();
    if use_baton {
        let mut cursors: Vec<(u32, u32, u32)> = plans.iter().filter(|p| p.baton).map(|p| (p.idx, 0u32, p.lens.len() as u32)).collect();
        while !cursors.is_empty() {
            let k = r.below(cursors.len() as u64) as usize;
            let (idx, ref mut seq, n) = cursors[k];
            if r.chance(600) {
                slots.push((idx, *seq));
            }
            *seq += 1;
            if *seq >= n {
                cursors.remove(k);
            }
        }
    }
    let slots = Arc::new(slots);
    let baton = Arc::new(AtomicUsize::new(0));

    let (tx, rx) = must("channel", ipc::channel::<Msg>());
    let logs: Arc<Mutex<Vec<SendRec>>> = Arc::new(Mutex::new(Vec::new()));
    // ---- fork()ed senders first, while this process is single-threaded: the child inherits a byte
    // copy of the handle (with whatever state the handle keeps), waits for "go", sends, _exits.
    let mut forked: Vec<(i32, String)> = Vec::new();
    let mut go_pipes: Vec<i32> = Vec::new();
    let has_fork = plans.iter().any(|p| p.kind == 3);
    if has_fork {
        // the handle has already carried a multi-packet message when it is inherited
        let warm = sz.f1 + 1;
        let wid = mid(hist, 999, 0);
        if tx.send((999, 0, Blob(body(wid, warm - 16)))).is_ok() {
            let _ = rx.recv();
        }
        for p in plans.iter().filter(|p| p.kind == 3) {
            let stamps = std::env::temp_dir().join(format!("c02-{}-{}.stamps", hist, p.idx)).to_string_lossy().into_owned();
            let mut fds = [0i32; 2];
            unsafe { libc::pipe2(fds.as_mut_ptr(), libc::O_CLOEXEC) };
            let pid = unsafe { libc::fork() };
            if pid == 0 {
                // child
                unsafe { libc::close(fds[1]) };
                let mut b = [0u8; 1];
                unsafe { libc::read(fds[0], b.as_mut_ptr() as *mut libc::c_void, 1) };
                let mut log = Vec::new();
                do_sends(&tx, hist, p, None, &[], &mut log);
                if let Ok(mut f) = std::fs::File::create(&stamps) {
                    for s in &log {
                        let _ = writeln!(f, "{} {} {} {} {} {} {}", s.sender, s.seq, s.len, s.call, s.ret, s.ok as u8, s.err.replace(' ', "_"));
                    }
                }
                unsafe { libc::_exit(0) };
            }
            unsafe { libc::close(fds[0]) };
            go_pipes.push(fds[1]);
            forked.push((pid, stamps));
        }
    }
    let running = Arc::new(AtomicU64::new(0));
    let children: Arc<Mutex<Vec<std::process::Child>>> = Arc::new(Mutex::new(Vec::new()));
    let mut stamp_files = Vec::new();
    let mut threads = Vec::new();
    let tmp = std::env::temp_dir();
    for p in &plans {
        match p.kind {
            3 => {},
            2 => {
                let (server, name) = must("server", IpcOneShotServer::<IpcSender<IpcSender<Msg>>>::new());
                let stamps = tmp.join(format!("c02-{}-{}.stamps", hist, p.idx)).to_string_lossy().into_owned();
                let lens: Vec<String> = p.lens.iter().map(|l| l.to_string()).collect();
                let child = std::process::Command::new(self_exe())
                    .args(["role", "c02-sender", &name, &hist.to_string(), &p.idx.to_string(), &lens.join(","), &stamps])
                    .spawn()
                    .expect("spawn");
                let (_b, btx) = server.accept().expect("accept bootstrap");
                btx.send(tx.clone()).expect("hand over sender");
                children.lock().unwrap().push(child);
                stamp_files.push(stamps);
            },
            k => {
                let mytx = if k == 1 {
                    // handle that itself travelled through a channel
                    let (stx, srx) = must("side channel", ipc::channel::<IpcSender<Msg>>());
                    stx.send(tx.clone()).expect("send clone");
                    srx.recv().expect("recv clone")
                } else {
                    tx.clone()
                };
                let (p2, logs2, run2, slots2, baton2) = (p.clone(), logs.clone(), running.clone(), slots.clone(), baton.clone());
                running.fetch_add(1, Ordering::SeqCst);
                threads.push(std::thread::spawn(move || {
                    let mut log = Vec::new();
                    do_sends(&mytx, hist, &p2, if p2.baton { Some(&baton2) } else { None }, &slots2, &mut log);
                    drop(mytx);
                    logs2.lock().unwrap().extend(log);
                    run2.fetch_sub(1, Ordering::SeqCst);
                }));
            },
        }
    }
    // the original handle (the one the forked children hold copies of) sends too, from its own thread
    if has_fork {
        let orig = tx;
        let (logs2, run2) = (logs.clone(), running.clone());
        let lens = gen_lens(&mut r, sz, per.min(20), multi_pm.max(400));
        let p9 = SenderPlan { idx: 900, lens, kind: 0, baton: false };
        plans.push(p9.clone());
        running.fetch_add(1, Ordering::SeqCst);
        threads.push(std::thread::spawn(move || {
            let mut log = Vec::new();
            do_sends(&orig, hist, &p9, None, &[], &mut log);
            drop(orig);
            logs2.lock().unwrap().extend(log);
            run2.fetch_sub(1, Ordering::SeqCst);
        }));
        for fd in go_pipes.drain(..) {
            unsafe {
                libc::write(fd, b"g".as_ptr() as *const libc::c_void, 1);
                libc::close(fd);
            }
        }
    } else {
        drop(tx);
    }
    let forked_pids: Arc<Mutex<Vec<(i32, bool)>>> = Arc::new(Mutex::new(forked.iter().map(|(p, _)| (*p, false)).collect()));
    for (_, f) in &forked {
        stamp_files.push(f.clone());
    }

    let total: usize = plans.iter().map(|p| p.lens.len()).sum();
    let all_done = {
        let (running, children, forked_pids) = (running.clone(), children.clone(), forked_pids.clone());
        move || {
            if running.load(Ordering::SeqCst) != 0 {
                return false;
            }
            for e in forked_pids.lock().unwrap().iter_mut() {
                if !e.1 {
                    let mut st = 0;
                    if unsafe { libc::waitpid(e.0, &mut st, libc::WNOHANG) } == e.0 {
                        e.1 = true;
                    }
                }
            }
            if forked_pids.lock().unwrap().iter().any(|e| !e.1) {
                return false;
            }
            let mut ch = children.lock().unwrap();
            ch.iter_mut().all(|c| matches!(c.try_wait(), Ok(Some(_))))
        }
    };
    let polling_done = Arc::new(AtomicBool::new(false));
    let pd = polling_done.clone();
    let res = watch("c02-receive", 20_000, &all_done, move || -> (Vec<RecvRec>, bool, String) {
        let mut got = Vec::with_capacity(total);
        if rmode == 1 {
            std::thread::sleep(Duration::from_millis(30));
        }
        match rmode {
            0 | 1 => loop {
                match rx.recv() {
                    Ok(m) => got.push(decode(hist, m)),
                    Err(ipc::IpcError::Disconnected) => return (got, true, String::new()),
                    Err(e) => return (got, false, format!("{:?}", e)),
                }
            },
            2 => loop {
                match rx.try_recv() {
                    Ok(m) => got.push(decode(hist, m)),
                    Err(TryRecvError::Empty) => {
                        if pd.load(Ordering::SeqCst) && got.len() >= total {
                            return (got, false, String::new());
                        }
                        std::thread::yield_now()
                    },
                    Err(TryRecvError::IpcError(ipc::IpcError::Disconnected)) => return (got, true, String::new()),
                    Err(e) => return (got, false, format!("{:?}", e)),
                }
            },
            _ => {
                let mut set = IpcReceiverSet::new().expect("set");
                let id = set.add(rx).expect("add");
                loop {
                    let evs = match set.select() {
                        Ok(e) => e,
                        Err(e) => return (got, false, format!("select: {}", e)),
                    };
                    for ev in evs {
                        match ev {
                            IpcSelectionResult::MessageReceived(i, m) => {
                                if i != id {
                                    return (got, false, format!("unknown id {}", i));
                                }
                                match m.to::<Msg>() {
                                    Ok(m) => got.push(decode(hist, m)),
                                    Err(e) => return (got, false, format!("decode: {}", e)),
                                }
                            },
                            IpcSelectionResult::ChannelClosed(_) => return (got, true, String::new()),
                        }
                    }
                }
            },
        }
    });
    polling_done.store(true, Ordering::SeqCst);
    let replay = ctx.replay(hist);
    let base = json!({"history": hist, "senders": nsenders, "kinds": plans.iter().map(|p| p.kind).collect::<Vec<_>>(),
        "per_sender": per, "baton_slots": slots.len(), "receiver": RMODES[rmode as usize],
        "sndbuf": sz.sndbuf, "variant": variant()});
    let (recvs, drained, rerr) = match res {
        Watch::Done(x) => x,
        Watch::Stuck(s) => {
            rep.violation("C02:receiver-stuck", json!({"ctx": base, "why": s}), replay);
            // senders that are blocked for good would otherwise outlive the batch
            for c in children.lock().unwrap().iter_mut() {
                let _ = c.kill();
                let _ = c.wait();
            }
            for e in forked_pids.lock().unwrap().iter() {
                if !e.1 {
                    unsafe {
                        libc::kill(e.0, libc::SIGKILL);
                        let mut st = 0;
                        libc::waitpid(e.0, &mut st, 0);
                    }
                }
            }
            return;
        },
        Watch::Unknown(s) => {
            rep.inconclusive(&format!("c02 history {}: {}", hist, s));
            for c in children.lock().unwrap().iter_mut() {
                let _ = c.kill();
                let _ = c.wait();
            }
            for e in forked_pids.lock().unwrap().iter() {
                if !e.1 {
                    unsafe {
                        libc::kill(e.0, libc::SIGKILL);
                        let mut st = 0;
                        libc::waitpid(e.0, &mut st, 0);
                    }
                }
            }
            return;
        },
        Watch::Panicked(s) => {
            rep.violation("C02:panic", json!({"ctx": base, "panic": s}), replay);
            return;
        },
    };
    // the receive ended (possibly early, with an error): senders that never come back would block
    // the join for good - decide that logically instead
    {
        let run3 = running.clone();
        match await_cond(20_000, &move || run3.load(Ordering::SeqCst) == 0) {
            Ok(true) => {
                for t in threads {
                    let _ = t.join();
                }
            },
            Ok(false) => {
                rep.violation("C02:sender-blocks-forever", json!({"ctx": base, "receive_error": rerr, "received": recvs.len()}), replay.clone());
                for c in children.lock().unwrap().iter_mut() {
                    let _ = c.kill();
                    let _ = c.wait();
                }
                for e in forked_pids.lock().unwrap().iter() {
                    if !e.1 {
                        unsafe {
                            libc::kill(e.0, libc::SIGKILL);
                            let mut st = 0;
                            libc::waitpid(e.0, &mut st, 0);
                        }
                    }
                }
                return;
            },
            Err(e) => {
                rep.inconclusive(&format!("c02 history {}: senders did not finish: {}", hist, e));
                for c in children.lock().unwrap().iter_mut() {
                    let _ = c.kill();
                    let _ = c.wait();
                }
                return;
            },
        }
    }
    {
        let (ch2, fk2) = (children.clone(), forked_pids.clone());
        let procs_done = move || {
            for e in fk2.lock().unwrap().iter_mut() {
                if !e.1 {
                    let mut st = 0;
                    if unsafe { libc::waitpid(e.0, &mut st, libc::WNOHANG) } == e.0 {
                        e.1 = true;
                    }
                }
            }
            fk2.lock().unwrap().iter().all(|e| e.1) && ch2.lock().unwrap().iter_mut().all(|c| matches!(c.try_wait(), Ok(Some(_))))
        };
        let verdict = await_cond(20_000, &procs_done);
        if !matches!(verdict, Ok(true)) {
            match verdict {
                Ok(false) => rep.violation("C02:sender-process-blocks-forever", json!({"ctx": base, "receive_error": rerr, "received": recvs.len()}), replay.clone()),
                _ => rep.inconclusive(&format!("c02 history {}: sender processes did not finish", hist)),
            }
            for c in children.lock().unwrap().iter_mut() {
                let _ = c.kill();
                let _ = c.wait();
            }
            for e in forked_pids.lock().unwrap().iter() {
                if !e.1 {
                    unsafe {
                        libc::kill(e.0, libc::SIGKILL);
                        let mut st = 0;
                        libc::waitpid(e.0, &mut st, 0);
                    }
                }
            }
            return;
        }
    }
    let mut sends = logs.lock().unwrap().clone();
    for f in &stamp_files {
        let v = read_stamps(f);
        if v.is_empty() {
            rep.inconclusive(&format!("c02 history {}: sender process left no stamps", hist));
            return;
        }
        sends.extend(v);
        let _ = std::fs::remove_file(f);
    }
    if !rerr.is_empty() {
        rep.violation("C02:receive-error", json!({"ctx": base, "error": rerr, "received": recvs.len(), "sent": total}), replay.clone());
    }
    let v = check_history(sz, &sends, &recvs, drained);
    rep.case(&(v.order_hash, nsenders, rmode), nsenders >= 2);
    rep.stat("messages", recvs.len() as i64);
    rep.stat("ordered_pairs_cross_handle", v.ordered_pairs_cross as i64);
    rep.stat("overlapping_multipacket_pairs", v.overlapping_multi as i64);
    rep.stat("histories", 1);
    rep.stat(&format!("receiver_{}", ["recv", "delayed", "try_recv", "set"][rmode as usize]), 1);
    rep.stat("process_senders", plans.iter().filter(|p| p.kind == 2).count() as i64);
    rep.stat("forked_senders", plans.iter().filter(|p| p.kind == 3).count() as i64);
    rep.stat("multi_packet_messages", sends.iter().filter(|s| 16 + s.len > sz.f1 && is_os()).count() as i64);
    let mut seen_kinds = std::collections::BTreeSet::new();
    for (kind, detail) in v.problems {
        if seen_kinds.insert(kind.clone()) {
            rep.violation(&format!("C02:{}", kind), json!({"ctx": base, "problem": detail}), replay.clone());
        }
    }
    if hist % 13 == 0 {
        let head: Vec<_> = recvs.iter().take(10).map(|r| json!([r.sender, r.seq, r.len])).collect();
        let sh: Vec<_> = sends.iter().take(6).map(|s| json!({"s": s.sender, "q": s.seq, "len": s.len, "call": s.call, "ret": s.ret})).collect();
        rep.sample(json!({"ctx": base, "delivery_order_head [sender,seq,len]": head, "send_stamps_head": sh,
            "cross_handle_ordered_pairs": v.ordered_pairs_cross, "overlapping_multipacket_pairs": v.overlapping_multi}));
    }
}

pub fn run(ctx: &Ctx) {
    let sz = sizes();
    let cpus = ctx.opt_u64("cpus", 0) as usize;
    pin_to_cpus(ctx.batch as usize * cpus.max(1), cpus);
    let n = ctx.opt_u64("histories", if ctx.thorough { 150 } else { 20 });
    for i in 0..n {
        let hist = ctx.batch * 10_000 + i;
        if !ctx.want(hist) {
            continue;
        }
        run_history(ctx, &sz, hist);
        if ctx.rep.nviol.load(Ordering::Relaxed) >= 1 {
            break; // every further stalled history would cost another grace period
        }
    }
}
