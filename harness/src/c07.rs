//! C07 — router: each routed message reaches its handler once, in order; then it is freed.

use crate::c01::{sizes, Sizes};
use crate::gen::Blob;
use crate::util::*;
use crate::Ctx;
use ipc_channel::ipc::{self, IpcReceiver, IpcSender};
use ipc_channel::router::{RouterProxy, ROUTER};
use serde_json::{json, Value};
use std::collections::BTreeSet;
use std::sync::atomic::{AtomicU64, Ordering};
use std::sync::{Arc, Mutex};
use std::time::Duration;

type M = (u32, u32, Blob);

fn mid(case: u64, tag: u32, seq: u32) -> u64 {
    (case << 36) ^ ((tag as u64) << 20) ^ seq as u64 ^ 0xc070_0000_0000_0000
}

#[derive(Debug, Clone)]
pub enum Ev {
    Deliver { route: u32, tag: u32, seq: u32, ok: bool, at: u64 },
    Dropped { route: u32, at: u64 },
}

pub struct Guard {
    pub route: u32,
    pub log: Arc<Mutex<Vec<Ev>>>,
}
impl Drop for Guard {
    fn drop(&mut self) {
        self.log.lock().unwrap().push(Ev::Dropped { route: self.route, at: now_ns() });
    }
}

struct Route {
    tag: u32,
    kind: u8, // 0 callback, 1 new crossbeam receiver, 2 existing crossbeam sender
    total: u32,
    pre: u32,
    tx: Option<IpcSender<M>>,
    rx: Option<IpcReceiver<M>>,
    lens: Vec<usize>,
    last_drop_begin: Arc<AtomicU64>,
}

pub fn run_case(ctx: &Ctx, sz: &Sizes, case: u64, proxy: &RouterProxy, global: bool) {
    let rep = &ctx.rep;
    let mut r = Rng::derive(ctx.seed, 0xc07, case);
    // "swarm" batches run very many tiny scenarios: every scenario ends with a registration that
    // nothing follows, which is where a lost wake-up of the router thread shows
    let small = ctx.opt_u64("small", 0) == 1;
    // "storm" batches: hundreds of routes registered back to back from several threads, so that the
    // router thread is kept draining its control queue while further registrations arrive; the
    // last registrations of the storm have nothing behind them to repair a lost wake-up
    let storm = ctx.opt_u64("storm", 0) == 1;
    let nroutes = if storm {
        r.range(120, 400)
    } else if small {
        r.range(1, 4)
    } else {
        match r.below(3) {
            0 => r.range(1, 4),
            _ => r.range(2, 32),
        }
    } as usize;
    let nreg_threads = if storm { r.range(3, 8) } else if small { r.range(2, 4) } else { r.range(1, 8) } as usize;
    let nprod_threads = if small || storm { 1 } else { r.range(1, 6) as usize };
    let small = small || storm; // same message and pause rules
    let allow_multi = is_os() && sz.sndbuf < 100_000 && r.chance(500);
    let log: Arc<Mutex<Vec<Ev>>> = Arc::new(Mutex::new(Vec::new()));
    let mut routes: Vec<Route> = Vec::new();
    for i in 0..nroutes {
        let (tx, rx) = must("channel", ipc::channel::<M>());
        // occasionally a long backlog queued before registration and a burst pending at the drop
        let deep = r.chance(120);
        let deep = deep && !small;
        let total = if deep { r.range(60, 160) } else if small { r.below(4) } else { r.below(51) } as u32;
        let pre = if deep { total } else if r.chance(500) { r.below(total as u64 + 1) as u32 } else { 0 };
        let mut multi_left = 1;
        let lens: Vec<usize> = (0..total)
            .map(|_| {
                if deep {
                    r.below(24) as usize
                } else if allow_multi && multi_left > 0 && r.chance(60) {
                    multi_left -= 1;
                    sz.f1 + r.range(1, 2 * sz.f2 as u64) as usize
                } else {
                    r.below(600) as usize
                }
            })
            .collect();
        let tag = i as u32;
        for s in 0..pre {
            tx.send((tag, s, Blob(body(mid(case, tag, s), lens[s as usize])))).expect("pre-queue");
        }
        routes.push(Route { tag, kind: r.below(3) as u8, total, pre, tx: Some(tx), rx: Some(rx), lens, last_drop_begin: Arc::new(AtomicU64::new(0)) });
    }
    // note: pre-queued messages were sent with len capped at 600 to stay inside the socket buffer
    // registration work items
    struct Reg {
        tag: u32,
        kind: u8,
        rx: IpcReceiver<M>,
    }
    let mut regs: Vec<Vec<Reg>> = (0..nreg_threads).map(|_| Vec::new()).collect();
    for rt in routes.iter_mut() {
        let k = r.below(nreg_threads as u64) as usize;
        regs[k].push(Reg { tag: rt.tag, kind: rt.kind, rx: rt.rx.take().unwrap() });
    }
    // producer work items
    struct Prod {
        tag: u32,
        from: u32,
        lens: Vec<usize>,
        tx: IpcSender<M>,
        last_drop_begin: Arc<AtomicU64>,
    }
    let mut prods: Vec<Vec<Prod>> = (0..nprod_threads).map(|_| Vec::new()).collect();
    for rt in routes.iter_mut() {
        let k = r.below(nprod_threads as u64) as usize;
        prods[k].push(Prod { tag: rt.tag, from: rt.pre, lens: rt.lens[rt.pre as usize..].to_vec(), tx: rt.tx.take().unwrap(), last_drop_begin: rt.last_drop_begin.clone() });
    }
    // crossbeam consumers: (tag, receiver)
    let consumers: Arc<Mutex<Vec<(u32, crossbeam_channel::Receiver<M>)>>> = Arc::new(Mutex::new(Vec::new()));
    let proxy_ptr = proxy as *const RouterProxy as usize;
    let mut threads = Vec::new();
    for (ti, list) in regs.into_iter().enumerate() {
        let (log, consumers) = (log.clone(), consumers.clone());
        let pause = if small { 0 } else { r.below(400) };
        threads.push(std::thread::spawn(move || {
            // the proxy outlives every scenario thread (leaked or global)
            let proxy: &RouterProxy = unsafe { &*(proxy_ptr as *const RouterProxy) };
            for reg in list {
                if pause > 0 && ti % 2 == 1 {
                    std::thread::sleep(Duration::from_micros(pause));
                }
                let route = reg.tag;
                match reg.kind {
                    0 => {
                        let guard = Guard { route, log: log.clone() };
                        let l2 = log.clone();
                        proxy.add_route(
                            reg.rx.to_opaque(),
                            Box::new(move |om| {
                                let _g = &guard;
                                let at = now_ns();
                                match om.to::<M>() {
                                    Ok((tag, seq, blob)) => {
                                        let ok = body_diff(mid(case, tag, seq), blob.0.len(), &blob.0).is_none();
                                        l2.lock().unwrap().push(Ev::Deliver { route, tag, seq, ok, at });
                                    },
                                    Err(_) => l2.lock().unwrap().push(Ev::Deliver { route, tag: u32::MAX, seq: u32::MAX, ok: false, at }),
                                }
                            }),
                        );
                    },
                    1 => {
                        let crx = proxy.route_ipc_receiver_to_new_crossbeam_receiver(reg.rx);
                        consumers.lock().unwrap().push((route, crx));
                    },
                    _ => {
                        let (ctx_, crx) = crossbeam_channel::unbounded::<M>();
                        proxy.route_ipc_receiver_to_crossbeam_sender(reg.rx, ctx_);
                        consumers.lock().unwrap().push((route, crx));
                    },
                }
            }
        }));
    }
    let mut send_errs: Arc<Mutex<Vec<String>>> = Arc::new(Mutex::new(Vec::new()));
    for list in prods {
        let errs = send_errs.clone();
        let drop_mid = r.chance(300);
        threads.push(std::thread::spawn(move || {
            let mut cursors = vec![0usize; list.len()];
            let mut live = true;
            while live {
                live = false;
                for (j, p) in list.iter().enumerate() {
                    if cursors[j] < p.lens.len() {
                        let seq = p.from + cursors[j] as u32;
                        if let Err(e) = p.tx.send((p.tag, seq, Blob(body(mid(case, p.tag, seq), p.lens[cursors[j]])))) {
                            errs.lock().unwrap().push(format!("route {} seq {}: {}", p.tag, seq, e));
                        }
                        cursors[j] += 1;
                        live = true;
                    }
                }
            }
            for p in list {
                if drop_mid {
                    std::thread::yield_now();
                }
                p.last_drop_begin.store(now_ns(), Ordering::SeqCst);
                drop(p.tx);
            }
        }));
    }
    for t in threads {
        let _ = t.join();
    }
    // all senders dropped, all registrations returned: wait for every route to finish
    let cb_routes: BTreeSet<u32> = routes.iter().filter(|r| r.kind == 0).map(|r| r.tag).collect();
    let log2 = log.clone();
    let cbr = cb_routes.clone();
    let guards_done = move || {
        let l = log2.lock().unwrap();
        let d: BTreeSet<u32> = l.iter().filter_map(|e| if let Ev::Dropped { route, .. } = e { Some(*route) } else { None }).collect();
        cbr.iter().all(|r| d.contains(r))
    };
    let base = json!({"case": case, "variant": variant(), "routes": nroutes, "register_threads": nreg_threads, "producer_threads": nprod_threads,
        "global_router": global, "kinds": routes.iter().map(|r| r.kind).collect::<Vec<_>>(), "totals": routes.iter().map(|r| r.total).collect::<Vec<_>>(),
        "prequeued": routes.iter().map(|r| r.pre).collect::<Vec<_>>()});
    let mut problems: Vec<(String, Value)> = Vec::new();
    match await_cond(20_000, &guards_done) {
        Ok(true) => {},
        Ok(false) => problems.push(("handler-never-dropped".into(), json!({"why": "all senders dropped, every thread of the process idle, guard(s) still alive"}))),
        Err(e) => {
            rep.inconclusive(&format!("c07 case {}: {}", case, e));
            return;
        },
    }
    // crossbeam consumers: drain until disconnected
    let cons = std::mem::take(&mut *consumers.lock().unwrap());
    let mut cb_seqs: Vec<(u32, Vec<(u32, u32, bool)>, bool)> = Vec::new();
    let mut quiescent_seen = false; // once the process was found idle, nothing more can arrive anywhere
    for (route, crx) in cons {
        let mut got = Vec::new();
        let mut disconnected = false;
        let t0 = now_ns();
        loop {
            match crx.recv_timeout(Duration::from_millis(if quiescent_seen { 1 } else { 200 })) {
                Ok((tag, seq, blob)) => got.push((tag, seq, body_diff(mid(case, tag, seq), blob.0.len(), &blob.0).is_none())),
                Err(crossbeam_channel::RecvTimeoutError::Disconnected) => {
                    disconnected = true;
                    break;
                },
                Err(crossbeam_channel::RecvTimeoutError::Timeout) => {
                    if quiescent_seen {
                        break;
                    }
                    if now_ns() - t0 > 20_000_000_000 {
                        match process_quiescent() {
                            Some(true) => {
                                quiescent_seen = true;
                                break;
                            },
                            _ => {
                                rep.inconclusive(&format!("c07 case {}: crossbeam route {} undecided", case, route));
                                return;
                            },
                        }
                    }
                },
            }
        }
        cb_seqs.push((route, got, disconnected));
    }
    // ---- checks
    let l = log.lock().unwrap().clone();
    for rt in &routes {
        let want: Vec<u32> = (0..rt.total).collect();
        if rt.kind == 0 {
            let mine: Vec<&Ev> = l.iter().filter(|e| matches!(e, Ev::Deliver { route, .. } | Ev::Dropped { route, .. } if *route == rt.tag)).collect();
            let seqs: Vec<u32> = mine.iter().filter_map(|e| if let Ev::Deliver { seq, .. } = e { Some(*seq) } else { None }).collect();
            if seqs != want {
                let kind = if seqs.len() < want.len() { "messages-missing" } else if seqs.len() > want.len() { "messages-duplicated" } else { "messages-reordered" };
                problems.push((kind.into(), json!({"route": rt.tag, "kind": "callback", "want": want.len(), "got": seqs.iter().take(60).collect::<Vec<_>>(), "prequeued": rt.pre})));
            }
            for e in &mine {
                if let Ev::Deliver { tag, ok, seq, .. } = e {
                    if *tag != rt.tag {
                        problems.push(("delivered-to-wrong-handler".into(), json!({"handler_route": rt.tag, "payload_tag": tag, "seq": seq})));
                    } else if !*ok {
                        problems.push(("payload-differs".into(), json!({"route": rt.tag, "seq": seq})));
                    }
                }
            }
            let drops: Vec<u64> = mine.iter().filter_map(|e| if let Ev::Dropped { at, .. } = e { Some(*at) } else { None }).collect();
            if drops.len() > 1 {
                problems.push(("handler-dropped-twice".into(), json!({"route": rt.tag})));
            }
            if let Some(d) = drops.first() {
                let last_deliver = mine.iter().filter_map(|e| if let Ev::Deliver { at, .. } = e { Some(*at) } else { None }).max().unwrap_or(0);
                if *d < last_deliver {
                    problems.push(("handler-dropped-before-last-message".into(), json!({"route": rt.tag})));
                }
                let ldb = rt.last_drop_begin.load(Ordering::SeqCst);
                if *d < ldb {
                    problems.push(("handler-dropped-while-sender-alive".into(), json!({"route": rt.tag, "early_by_ns": ldb - d})));
                }
                // nothing delivered after the drop (position in the log)
                let pos_drop = mine.iter().position(|e| matches!(e, Ev::Dropped { .. })).unwrap();
                if mine[pos_drop..].iter().any(|e| matches!(e, Ev::Deliver { .. })) {
                    problems.push(("delivery-after-handler-drop".into(), json!({"route": rt.tag})));
                }
            }
        } else {
            match cb_seqs.iter().find(|(t, _, _)| *t == rt.tag) {
                None => problems.push(("crossbeam-route-lost".into(), json!({"route": rt.tag}))),
                Some((_, got, disc)) => {
                    let seqs: Vec<u32> = got.iter().map(|g| g.1).collect();
                    if seqs != want {
                        let kind = if seqs.len() < want.len() { "messages-missing" } else if seqs.len() > want.len() { "messages-duplicated" } else { "messages-reordered" };
                        problems.push((kind.into(), json!({"route": rt.tag, "kind": "crossbeam", "want": want.len(), "got": seqs.iter().take(60).collect::<Vec<_>>(), "prequeued": rt.pre})));
                    }
                    if got.iter().any(|g| g.0 != rt.tag) {
                        problems.push(("delivered-to-wrong-handler".into(), json!({"handler_route": rt.tag})));
                    }
                    if got.iter().any(|g| !g.2) {
                        problems.push(("payload-differs".into(), json!({"route": rt.tag})));
                    }
                    if !*disc {
                        problems.push(("crossbeam-consumer-never-disconnected".into(), json!({"route": rt.tag})));
                    }
                },
            }
        }
    }
    for e in std::mem::take(&mut *Arc::get_mut(&mut send_errs).map(|m| m.lock().unwrap()).unwrap_or_else(|| panic!("errs shared"))) {
        problems.push(("send-failed".into(), json!({"error": e})));
    }
    // interleaving signature: order of (route) over deliveries and drops
    let order: Vec<(u32, bool)> = l.iter().map(|e| match e { Ev::Deliver { route, .. } => (*route, false), Ev::Dropped { route, .. } => (*route, true) }).collect();
    rep.case(&(hash_of(&order), nroutes), nroutes >= 2);
    rep.stat("scenarios", 1);
    rep.stat("routes", nroutes as i64);
    rep.stat("callback_routes", cb_routes.len() as i64);
    rep.stat("crossbeam_routes", (nroutes - cb_routes.len()) as i64);
    rep.stat("messages", routes.iter().map(|r| r.total as i64).sum());
    rep.stat("prequeued_messages", routes.iter().map(|r| r.pre as i64).sum());
    rep.stat_max("routes_in_one_router", nroutes as i64);
    rep.stat_max("register_threads", nreg_threads as i64);
    let mut seen = BTreeSet::new();
    let all: Vec<String> = problems.iter().map(|(k, d)| format!("{}@route{}", k, d.get("route").or(d.get("handler_route")).map(|r| r.to_string()).unwrap_or_default())).collect();
    for (k, d) in problems {
        if seen.insert(k.clone()) {
            rep.violation(&format!("C07:{}", k), json!({"ctx": base, "problem": d, "all_problems": all, "log": l.iter().take(40).map(|e| format!("{:?}", e)).collect::<Vec<_>>()}), ctx.replay(case));
        }
    }
    if storm {
        rep.stat("storm_scenarios", 1);
        rep.stat("storm_routes", nroutes as i64);
    } else if small {
        rep.stat("swarm_scenarios", 1);
    }
    if case % 7 == 0 && !small {
        rep.sample(json!({"ctx": base, "log_head": l.iter().take(12).map(|e| format!("{:?}", e)).collect::<Vec<_>>(), "clean": seen.is_empty()}));
    }
}

/// "pair" batches: two registrations a few microseconds apart on an otherwise idle router, then
/// silence. The second route already holds a message; it must reach its handler although nothing
/// else happens (a registration overlooked by the router thread goes unnoticed as long as later
/// registrations keep waking it).
pub fn run_pair_storm(ctx: &Ctx, case: u64) {
    use std::sync::atomic::AtomicU32;
    let rep = &ctx.rep;
    let mut r = Rng::derive(ctx.seed, 0xc07c, case);
    let trials = ctx.opt_u64("pair_trials", 300);
    let proxy = RouterProxy::new();
    let mut problems: Vec<(String, Value)> = Vec::new();
    let mut done = 0u64;
    for t in 0..trials {
        let (txa, rxa) = must("channel", ipc::channel::<M>());
        let (txb, rxb) = must("channel", ipc::channel::<M>());
        let tag = t as u32;
        must("queue", txb.send((tag, 0, Blob(body(mid(case, tag, 0), 16)))));
        let delivered = Arc::new(AtomicU32::new(0));
        let dropped = Arc::new(AtomicU32::new(0));
        struct D(Arc<AtomicU32>);
        impl Drop for D {
            fn drop(&mut self) {
                self.0.fetch_add(1, Ordering::SeqCst);
            }
        }
        let (da, db) = (D(dropped.clone()), D(dropped.clone()));
        let del = delivered.clone();
        let gap_ns = r.below(120_000);
        proxy.add_route(rxa.to_opaque(), Box::new(move |_| { let _d = &da; }));
        let t0 = now_ns();
        while now_ns() - t0 < gap_ns {
            std::hint::spin_loop();
        }
        proxy.add_route(
            rxb.to_opaque(),
            Box::new(move |om| {
                let _d = &db;
                if let Ok((tg, 0, b)) = om.to::<M>() {
                    if tg == tag && body_diff(mid(case, tag, 0), 16, &b.0).is_none() {
                        del.fetch_add(1, Ordering::SeqCst);
                    }
                }
            }),
        );
        let d2 = delivered.clone();
        match await_cond(20_000, &move || d2.load(Ordering::SeqCst) > 0) {
            Ok(true) => {},
            Ok(false) => {
                problems.push(("pair:queued-message-never-delivered".into(), json!({"trial": t, "gap_ns": gap_ns,
                    "why": "route registered right after another one; its queued message never reached the handler although every thread is idle"})));
                break;
            },
            Err(e) => {
                rep.inconclusive(&format!("c07 pair case {}: {}", case, e));
                return;
            },
        }
        drop((txa, txb));
        let d3 = dropped.clone();
        match await_cond(20_000, &move || d3.load(Ordering::SeqCst) >= 2) {
            Ok(true) => {},
            Ok(false) => {
                problems.push(("pair:handler-never-dropped".into(), json!({"trial": t, "dropped": dropped.load(Ordering::SeqCst)})));
                break;
            },
            Err(e) => {
                rep.inconclusive(&format!("c07 pair case {}: {}", case, e));
                return;
            },
        }
        if delivered.load(Ordering::SeqCst) != 1 {
            problems.push(("pair:message-duplicated".into(), json!({"trial": t, "deliveries": delivered.load(Ordering::SeqCst)})));
            break;
        }
        done += 1;
    }
    drop(proxy);
    rep.case(&("pair-storm", case), true);
    rep.stat("pair_storm_scenarios", 1);
    rep.stat("pair_storm_trials", done as i64);
    let base = json!({"case": case, "variant": variant(), "scenario": "pair-storm", "trials": done});
    let mut seen = BTreeSet::new();
    for (k, d) in problems {
        if seen.insert(k.clone()) {
            rep.violation(&format!("C07:{}", k), json!({"ctx": base, "problem": d}), ctx.replay(case));
        }
    }
}

pub fn run(ctx: &Ctx) {
    let sz = sizes();
    let n = ctx.opt_u64("cases", if ctx.thorough { 250 } else { 14 });
    let global = ctx.opt_u64("global", 0) == 1;
    for i in 0..n {
        let case = ctx.batch * 1_000_000 + i;
        if !ctx.want(case) {
            continue;
        }
        // a registration or a producer that blocks for good (router asleep, queue full) ends the batch
        // through the per-case watchdog instead of hanging it
        let _g = op_begin("router-scenario", case);
        if ctx.opt_u64("pair", 0) == 1 {
            run_pair_storm(ctx, case);
        } else if global {
            run_case(ctx, &sz, case, &ROUTER, true);
        } else {
            if ctx.opt_u64("small", 0) == 1 || ctx.opt_u64("storm", 0) == 1 {
                // thousands of tiny scenarios: the router is dropped afterwards to free its thread
                let proxy = RouterProxy::new();
                run_case(ctx, &sz, case, &proxy, false);
            } else {
                // a fresh router per scenario; leaked so that C17's stop path does not interfere
                let proxy: &'static RouterProxy = Box::leak(Box::new(RouterProxy::new()));
                run_case(ctx, &sz, case, proxy, false);
            }
        }
        if ctx.rep.nviol.load(Ordering::Relaxed) >= 3 {
            break;
        }
    }
}
