//! C14 — a failed or nested send leaves no trace in later or enclosing messages.

use crate::util::*;
use crate::Ctx;
use ipc_channel::ipc::{self, IpcError, IpcReceiver, IpcSender, IpcSharedMemory, TryRecvError};
use serde::ser::{Error as SerError, SerializeSeq, SerializeTuple};
use serde::{Deserialize, Deserializer, Serialize, Serializer};
use serde_json::{json, Value};
use std::cell::{Cell, RefCell};

/// One attachment slot of a test value.
#[derive(Serialize, Deserialize)]
pub enum Att {
    Tx(IpcSender<u64>),
    Rx(IpcReceiver<u64>),
    Shm(IpcSharedMemory),
}

/// A value whose serialisation visits `atts[..fail_after]` and then fails.
pub struct Failing {
    atts: Vec<Att>,
    fail_after: usize,
    mode: u8, // 0 custom error, 1 bincode "sequence must have length"
}

impl Serialize for Failing {
    fn serialize<S: Serializer>(&self, s: S) -> Result<S::Ok, S::Error> {
        let mut t = s.serialize_tuple(self.atts.len() + 1)?;
        for (i, a) in self.atts.iter().enumerate() {
            if i == self.fail_after {
                if self.mode == 0 {
                    return Err(S::Error::custom("deliberate serialisation failure"));
                }
                t.serialize_element(&NoLen)?;
            }
            t.serialize_element(a)?;
        }
        if self.fail_after >= self.atts.len() {
            if self.mode == 0 {
                return Err(S::Error::custom("deliberate serialisation failure"));
            }
            t.serialize_element(&NoLen)?;
        }
        t.end()
    }
}
impl<'de> Deserialize<'de> for Failing {
    fn deserialize<D: Deserializer<'de>>(_d: D) -> Result<Self, D::Error> {
        Err(serde::de::Error::custom("never received"))
    }
}

/// bincode refuses sequences of unknown length.
struct NoLen;
impl Serialize for NoLen {
    fn serialize<S: Serializer>(&self, s: S) -> Result<S::Ok, S::Error> {
        let seq = s.serialize_seq(None)?;
        seq.end()
    }
}

/// Ordinary message used for "further traffic" and as inner/outer payload.
#[derive(Serialize, Deserialize)]
pub struct Plain {
    tag: u64,
    atts: Vec<Att>,
}

/// Serialising this value sends `inner` on `tx` (a nested send), then writes a marker.
pub struct SendInside {
    tx: IpcSender<Nest>,
    inner: RefCell<Option<Nest>>,
    result: Cell<Option<bool>>,
    propagate: bool,
}
impl Serialize for SendInside {
    fn serialize<S: Serializer>(&self, s: S) -> Result<S::Ok, S::Error> {
        if let Some(v) = self.inner.borrow_mut().take() {
            let r = self.tx.send(v);
            self.result.set(Some(r.is_ok()));
            if r.is_err() && self.propagate {
                return Err(S::Error::custom("nested send failed"));
            }
        }
        s.serialize_u8(0x5a)
    }
}
impl<'de> Deserialize<'de> for SendInside {
    fn deserialize<D: Deserializer<'de>>(d: D) -> Result<Self, D::Error> {
        let m = u8::deserialize(d)?;
        if m != 0x5a {
            return Err(serde::de::Error::custom("bad marker"));
        }
        // the receiving side only needs a placeholder
        let (tx, _rx) = ipc::channel::<Nest>().map_err(serde::de::Error::custom)?;
        Ok(SendInside { tx, inner: RefCell::new(None), result: Cell::new(None), propagate: false })
    }
}

thread_local! {
    static NESTED_RX: RefCell<Option<IpcReceiver<Plain>>> = RefCell::new(None);
    static NESTED_GOT: RefCell<Vec<Result<Plain, String>>> = RefCell::new(Vec::new());
}

/// Deserialising this value performs a receive on NESTED_RX (a receive inside a deserialisation).
pub struct RecvInside;
impl Serialize for RecvInside {
    fn serialize<S: Serializer>(&self, s: S) -> Result<S::Ok, S::Error> {
        s.serialize_u8(0x7e)
    }
}
impl<'de> Deserialize<'de> for RecvInside {
    fn deserialize<D: Deserializer<'de>>(d: D) -> Result<Self, D::Error> {
        let _ = u8::deserialize(d)?;
        NESTED_RX.with(|r| {
            if let Some(rx) = r.borrow().as_ref() {
                let x = rx.try_recv().map_err(|e| format!("{:?}", e));
                NESTED_GOT.with(|g| g.borrow_mut().push(x));
            }
        });
        Ok(RecvInside)
    }
}

/// Message with attachments before, a nested action in the middle and attachments after.
#[derive(Serialize, Deserialize)]
pub struct Nest {
    tag: u64,
    before: Vec<Att>,
    send_inside: Option<Box<SendInside>>,
    fail_inside: Option<Failing>,
    recv_inside: Option<RecvInside>,
    after: Vec<Att>,
}

// ------------------------------------------------------------------ counterparts and probes

pub enum Kept {
    RxOf(IpcReceiver<u64>),
    TxOf(IpcSender<u64>),
    Shm(u64, usize),
}

pub fn att_kinds(a: &[Att]) -> String {
    a.iter()
        .map(|x| match x {
            Att::Tx(_) => 'T',
            Att::Rx(_) => 'R',
            Att::Shm(_) => 'M',
        })
        .collect()
}

pub fn make_atts(r: &mut Rng, n: usize, nonce: &mut u64) -> (Vec<Att>, Vec<Kept>) {
    let mut a = Vec::new();
    let mut k = Vec::new();
    for _ in 0..n {
        match r.below(3) {
            0 => {
                let (tx, rx) = must("channel", ipc::channel::<u64>());
                a.push(Att::Tx(tx));
                k.push(Kept::RxOf(rx));
            },
            1 => {
                let (tx, rx) = must("channel", ipc::channel::<u64>());
                a.push(Att::Rx(rx));
                k.push(Kept::TxOf(tx));
            },
            _ => {
                *nonce += 1;
                let len = *r.pick(&[1usize, 100, 5000]);
                a.push(Att::Shm(IpcSharedMemory::from_bytes(&body(*nonce, len))));
                k.push(Kept::Shm(*nonce, len));
            },
        }
    }
    (a, k)
}

/// Identity probes of received attachments against kept counterparts; Err lists the problems.
pub fn probe(atts: Vec<Att>, kept: &[Kept], nonce: &mut u64, what: &str, problems: &mut Vec<(String, Value)>) {
    if atts.len() != kept.len() {
        problems.push((format!("{}:attachment-count", what), json!({"got": atts.len(), "want": kept.len()})));
        return;
    }
    for (i, (a, k)) in atts.into_iter().zip(kept.iter()).enumerate() {
        *nonce += 1;
        let n = *nonce;
        let ok = match (a, k) {
            (Att::Tx(tx), Kept::RxOf(rx)) => tx.send(n).is_ok() && rx.try_recv().ok() == Some(n),
            (Att::Rx(rx), Kept::TxOf(tx)) => tx.send(n).is_ok() && rx.try_recv().ok() == Some(n),
            (Att::Shm(g), Kept::Shm(cid, len)) => &g[..] == &body(*cid, *len)[..],
            _ => false,
        };
        if !ok {
            problems.push((format!("{}:attachment-misplaced-or-foreign", what), json!({"position": i})));
        }
    }
}

/// After a failed send and with the program's own handles gone, every counterpart must see the end.
pub fn released(kept: &[Kept], what: &str, problems: &mut Vec<(String, Value)>) {
    for (i, k) in kept.iter().enumerate() {
        match k {
            Kept::RxOf(rx) => match rx.try_recv() {
                Err(TryRecvError::IpcError(IpcError::Disconnected)) => {},
                other => problems.push((format!("{}:embedded-sender-retained", what), json!({"position": i, "kept_receiver_says": format!("{:?}", other)}))),
            },
            Kept::TxOf(tx) => {
                if tx.send(1).is_ok() {
                    problems.push((format!("{}:embedded-receiver-retained", what), json!({"position": i})));
                }
            },
            Kept::Shm(..) => {},
        }
    }
}

fn further_traffic(r: &mut Rng, nonce: &mut u64, problems: &mut Vec<(String, Value)>) {
    // later messages from this thread carry exactly their own attachments
    for _ in 0..3 {
        let (tx, rx) = must("channel", ipc::channel::<Plain>());
        let n = r.below(4) as usize;
        let (atts, kept) = make_atts(r, n, nonce);
        *nonce += 1;
        let tag = *nonce;
        match tx.send(Plain { tag, atts }) {
            Ok(()) => match rx.try_recv() {
                Ok(p) => {
                    if p.tag != tag {
                        problems.push(("later-message:wrong-tag".into(), json!({})));
                    }
                    probe(p.atts, &kept, nonce, "later-message", problems);
                },
                Err(e) => problems.push(("later-message:not-received".into(), json!({"error": format!("{:?}", e)}))),
            },
            Err(e) => problems.push(("later-message:send-failed".into(), json!({"error": e.to_string()}))),
        }
    }
}

pub fn run_case(ctx: &Ctx, case: u64) {
    let rep = &ctx.rep;
    let mut r = Rng::derive(ctx.seed, 0xc14, case);
    let mut nonce = case << 20;
    let kind = r.below(6) as u8;
    let base_fds = if is_os() { fd_count() } else { 0 };
    let mut problems: Vec<(String, Value)> = Vec::new();
    let mut desc = json!({});
    match kind {
        0 | 1 => {
            // serialisation fails after visiting j of n attachments
            let n = r.below(6) as usize;
            let j = r.below(n as u64 + 1) as usize;
            let (atts, kept) = make_atts(&mut r, n, &mut nonce);
            let kinds = att_kinds(&atts);
            let (tx, rx) = must("channel", ipc::channel::<Failing>());
            let res = tx.send(Failing { atts, fail_after: j, mode: kind });
            desc = json!({"kind": if kind == 0 {"serialisation-fails(custom)"} else {"serialisation-fails(bincode)"}, "attachments": kinds, "fails_after": j});
            if res.is_ok() {
                problems.push(("failing-value-was-sent".into(), json!({})));
            }
            if let Ok(_m) = rx.try_recv() {
                problems.push(("failed-send-delivered-something".into(), json!({})));
            }
            released(&kept, "failed-send", &mut problems);
        },
        2 => {
            // the OS rejects the transmission (receiver closed)
            let n = r.below(6) as usize;
            let (atts, kept) = make_atts(&mut r, n, &mut nonce);
            let kinds = att_kinds(&atts);
            let (tx, rx) = must("channel", ipc::channel::<Plain>());
            drop(rx);
            let res = tx.send(Plain { tag: 1, atts });
            desc = json!({"kind": "os-rejects-transmission", "attachments": kinds});
            if res.is_ok() {
                problems.push(("send-to-closed-receiver-succeeded".into(), json!({})));
            }
            released(&kept, "rejected-send", &mut problems);
        },
        3 | 4 => {
            // nested sends to depth d; at kind 4 the innermost send fails
            let depth = r.range(1, 3) as usize;
            let fail_mode = if kind == 4 { r.range(1, 2) as u8 } else { 0 }; // 1 inner serialisation error, 2 inner receiver closed
            let propagate = kind == 4 && r.chance(500);
            // build from the inside out; level 0 is the outermost message
            let mut chans: Vec<(IpcSender<Nest>, Option<IpcReceiver<Nest>>)> = Vec::new();
            let mut kepts: Vec<(Vec<Kept>, Vec<Kept>)> = Vec::new();
            for _ in 0..=depth {
                let (t, rx) = must("channel", ipc::channel::<Nest>());
                chans.push((t, Some(rx)));
            }
            if fail_mode == 2 {
                chans[depth].1 = None; // innermost receiver closed
            }
            let mut inner: Option<Nest> = None;
            let mut fail_kept: Vec<Kept> = Vec::new();
            let mut level_kinds: Vec<String> = Vec::new();
            for level in (0..=depth).rev() {
                let nb = r.below(3) as usize;
                let na = r.below(3) as usize;
                let (before, kb) = make_atts(&mut r, nb, &mut nonce);
                let (after, ka) = make_atts(&mut r, na, &mut nonce);
                level_kinds.push(format!("{}|{}", att_kinds(&before), att_kinds(&after)));
                nonce += 1;
                let mut fail_inside = None;
                if level == depth && fail_mode == 1 {
                    let nf = r.range(1, 3) as usize;
                    let (fa, fk) = make_atts(&mut r, nf, &mut nonce);
                    fail_kept = fk;
                    fail_inside = Some(Failing { atts: fa, fail_after: r.below(nf as u64 + 1) as usize, mode: 0 });
                }
                let send_inside = inner.take().map(|v| Box::new(SendInside { tx: chans[level + 1].0.clone(), inner: RefCell::new(Some(v)), result: Cell::new(None), propagate }));
                kepts.push((kb, ka));
                inner = Some(Nest { tag: level as u64, before, send_inside, fail_inside, recv_inside: None, after });
            }
            kepts.reverse(); // index by level
            let outer = inner.take().unwrap();
            let res = chans[0].0.send(outer);
            let fname = ["none", "serialisation", "receiver-closed"][fail_mode as usize];
            desc = json!({"kind": if kind == 3 {"nested-send"} else {"nested-send-that-fails"}, "depth": depth,
                "inner_failure": fname, "propagate": propagate, "attachments_per_level(before|after)": level_kinds});
            // which levels must have arrived?
            // level `depth` fails (fail_mode != 0); with propagate every enclosing level fails too
            for level in 0..=depth {
                let expect_ok = if fail_mode == 0 { true } else if level == depth { false } else { !propagate };
                let what = format!("level{}-of-{}", level, depth);
                if level == 0 && res.is_ok() != expect_ok {
                    problems.push((format!("{}:send-result", what), json!({"ok": res.is_ok(), "expected_ok": expect_ok})));
                }
                match chans[level].1.as_ref() {
                    None => {},
                    Some(rx) => match rx.try_recv() {
                        Ok(m) => {
                            if !expect_ok {
                                problems.push((format!("{}:failed-message-delivered", what), json!({})));
                            } else {
                                if m.tag != level as u64 {
                                    problems.push((format!("{}:wrong-message", what), json!({"tag": m.tag})));
                                }
                                probe(m.before, &kepts[level].0, &mut nonce, &format!("{}:before", what), &mut problems);
                                probe(m.after, &kepts[level].1, &mut nonce, &format!("{}:after", what), &mut problems);
                            }
                        },
                        Err(e) => {
                            if expect_ok {
                                problems.push((format!("{}:not-delivered", what), json!({"error": format!("{:?}", e)})));
                            } else {
                                released(&kepts[level].0, &format!("{}:before", what), &mut problems);
                                released(&kepts[level].1, &format!("{}:after", what), &mut problems);
                            }
                        },
                    },
                }
                if chans[level].1.is_none() {
                    released(&kepts[level].0, &format!("{}:before", what), &mut problems);
                    released(&kepts[level].1, &format!("{}:after", what), &mut problems);
                }
            }
            released(&fail_kept, "inner-failing-value", &mut problems);
        },
        _ => {
            // a receive inside a deserialisation
            let (otx, orx) = must("channel", ipc::channel::<Nest>());
            let (itx, irx) = must("channel", ipc::channel::<Plain>());
            let ni = r.below(4) as usize;
            let (iatts, ikept) = make_atts(&mut r, ni, &mut nonce);
            let (nb, na) = (r.below(3) as usize, r.below(3) as usize);
            let (before, kb) = make_atts(&mut r, nb, &mut nonce);
            let (after, ka) = make_atts(&mut r, na, &mut nonce);
            let shape5 = format!("{}<{}>{}", att_kinds(&before), att_kinds(&iatts), att_kinds(&after));
            itx.send(Plain { tag: 4242, atts: iatts }).expect("inner send");
            otx.send(Nest { tag: 7, before, send_inside: None, fail_inside: None, recv_inside: Some(RecvInside), after }).expect("outer send");
            NESTED_RX.with(|x| *x.borrow_mut() = Some(irx));
            NESTED_GOT.with(|g| g.borrow_mut().clear());
            let got = orx.try_recv();
            NESTED_RX.with(|x| *x.borrow_mut() = None);
            desc = json!({"kind": "receive-inside-deserialisation", "inner_attachments": ni, "before": nb, "after": na, "shape": shape5});
            match got {
                Ok(m) => {
                    probe(m.before, &kb, &mut nonce, "outer:before", &mut problems);
                    probe(m.after, &ka, &mut nonce, "outer:after", &mut problems);
                },
                Err(e) => problems.push(("outer:not-delivered".into(), json!({"error": format!("{:?}", e)}))),
            }
            let inner = NESTED_GOT.with(|g| std::mem::take(&mut *g.borrow_mut()));
            match inner.into_iter().next() {
                Some(Ok(p)) => {
                    if p.tag != 4242 {
                        problems.push(("inner:wrong-message".into(), json!({"tag": p.tag})));
                    }
                    probe(p.atts, &ikept, &mut nonce, "inner", &mut problems);
                },
                other => problems.push(("inner:not-delivered".into(), json!({"got": format!("{:?}", other.map(|r| r.map(|p| p.tag)))}))),
            }
        },
    }
    further_traffic(&mut r, &mut nonce, &mut problems);
    if is_os() {
        let now = fd_count();
        if now != base_fds {
            problems.push(("descriptors-retained".into(), json!({"before": base_fds, "after": now})));
        }
    }
    rep.case(&desc.to_string(), true);
    rep.stat(&format!("kind_{}", kind), 1);
    let base = json!({"case": case, "variant": variant(), "scenario": desc});
    let mut seen = std::collections::BTreeSet::new();
    for (k, d) in problems {
        // the level prefix is informative but must not multiply signatures
        let sig = match k.split_once(':') {
            Some((p, rest)) if p.starts_with("level") => format!("nested:{}", rest),
            _ => k.clone(),
        };
        if seen.insert(sig.clone()) {
            rep.violation(&format!("C14:{}", sig), json!({"ctx": base, "where": k, "problem": d}), ctx.replay(case));
        }
    }
    if case % 29 == 0 {
        rep.sample(json!({"ctx": base, "clean": seen.is_empty()}));
    }
}

pub fn run(ctx: &Ctx) {
    let n = ctx.opt_u64("cases", if ctx.thorough { 5000 } else { 300 });
    // warm-up so that lazily created descriptors are part of the baseline
    {
        let (tx, rx) = must("channel", ipc::channel::<u8>());
        tx.send(0).unwrap();
        let _ = rx.recv();
        let _ = IpcSharedMemory::from_bytes(&[1]);
    }
    for i in 0..n {
        let case = ctx.batch * 1_000_000 + i;
        if !ctx.want(case) {
            continue;
        }
        let _g = op_begin("failed-or-nested-send", case);
        let r = std::panic::catch_unwind(std::panic::AssertUnwindSafe(|| run_case(ctx, case)));
        drop(_g);
        if r.is_err() {
            let p = take_panics();
            let at = p.last().cloned().unwrap_or_default();
            let loc = at.split(" at ").nth(1).and_then(|s| s.split(' ').next()).unwrap_or("?").replace("/repo/", "");
            let loc_file = loc.split(':').next().unwrap_or("?").to_string();
            ctx.rep.violation(&format!("C14:panic-after-scenario:{}", loc_file), json!({"case": case, "panic": at, "variant": variant()}), ctx.replay(case));
            break; // thread-local state is unknown after a panic in the middle of a send/receive
        }
    }
}
