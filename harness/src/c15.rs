//! C15 — messages with too many attachments for one message are refused, not mangled.

use crate::c01::{sizes, Sizes};
use crate::c14::{probe, released, Att, Kept};
use crate::gen::Blob;
use crate::util::*;
use crate::Ctx;
use ipc_channel::ipc::{self, IpcSharedMemory, TryRecvError};
use serde_json::{json, Value};

type M = (Blob, Vec<Att>);

const MIX: [&str; 4] = ["senders", "receivers", "regions", "mixed"];
const DATA: [&str; 6] = ["empty", "small", "exactly-one-packet", "one-byte-over", "multi-packet", "2500-bytes"];

fn make(mix: usize, n: usize, nonce: &mut u64) -> (Vec<Att>, Vec<Kept>) {
    let mut a = Vec::with_capacity(n);
    let mut k = Vec::with_capacity(n);
    for i in 0..n {
        let kind = match mix {
            0 => 0,
            1 => 1,
            2 => 2,
            _ => (i * 7 + i / 3) % 3,
        };
        match kind {
            0 => {
                let (tx, rx) = must("channel", ipc::channel::<u64>());
                a.push(Att::Tx(tx));
                k.push(Kept::RxOf(rx));
            },
            1 => {
                let (tx, rx) = must("channel", ipc::channel::<u64>());
                a.push(Att::Rx(rx));
                k.push(Kept::TxOf(tx));
            },
            _ => {
                *nonce += 1;
                a.push(Att::Shm(IpcSharedMemory::from_bytes(&body(*nonce, 64))));
                k.push(Kept::Shm(*nonce, 64));
            },
        }
    }
    (a, k)
}

/// `enobufs`: bit pattern of transmission attempts of this send that the interposer refuses with
/// ENOBUFS (0 = none). A refused single-packet attempt makes the sender fall back to fragmenting,
/// which adds one descriptor of its own.
pub fn run_one(sz: &Sizes, n: usize, mix: usize, data: usize, enobufs: u64, nonce: &mut u64) -> (Vec<(String, Value)>, bool) {
    // encoded size = 8 + len (blob) + 8 (vec length) + 12 per attachment
    let overhead = 16 + 12 * n;
    let len = match data {
        0 => 0,
        1 => 300,
        2 => sz.f1.saturating_sub(overhead),
        3 => sz.f1.saturating_sub(overhead) + 1,
        4 => sz.f1 + sz.f2 + sz.f2 / 3,
        _ => 2500,
    };
    let (tx, rx) = must("channel", ipc::channel::<M>());
    let (atts, kept) = make(mix, n, nonce);
    *nonce += 1;
    let id = *nonce;
    let mut problems: Vec<(String, Value)> = Vec::new();
    if enobufs != 0 {
        if let Some(m) = mon() {
            m.arm_enobufs(enobufs, 10);
        }
    }
    let res = tx.send((Blob(body(id, len)), atts));
    if enobufs != 0 {
        if let Some(m) = mon() {
            m.disarm_enobufs();
        }
    }
    let accepted = res.is_ok();
    if accepted {
        // the receive is watched: a mis-assigned dedicated descriptor would make it block forever
        let w = watch("c15-receive", 10_000, &|| true, move || {
            let r = rx.try_recv();
            (r, rx)
        });
        match w {
            Watch::Done((Ok((blob, got)), rx)) => {
                if let Some(d) = body_diff(id, len, &blob.0) {
                    problems.push(("accepted-but-data-differs".into(), json!({"diff": d})));
                }
                if got.len() != n {
                    problems.push(("accepted-but-attachments-missing".into(), json!({"sent": n, "received": got.len()})));
                } else {
                    let mut p2 = Vec::new();
                    probe(got, &kept, nonce, "accepted", &mut p2);
                    if !p2.is_empty() {
                        problems.push(("accepted-but-attachments-misassigned".into(), json!({"first": p2[0].1})));
                    }
                }
                // channel still usable
                *nonce += 1;
                let id2 = *nonce;
                if tx.send((Blob(body(id2, 50)), vec![])).is_err() || !matches!(rx.try_recv(), Ok((b, a)) if a.is_empty() && body_diff(id2, 50, &b.0).is_none()) {
                    problems.push(("channel-unusable-after-accepted-message".into(), json!({})));
                }
            },
            Watch::Done((Err(e), _rx)) => {
                problems.push(("accepted-but-receive-failed".into(), json!({"error": format!("{:?}", e), "sent": n})));
            },
            Watch::Stuck(s) => problems.push(("accepted-but-receiver-hangs".into(), json!({"why": s}))),
            Watch::Unknown(s) => problems.push(("harness-undecided".into(), json!({"why": s}))),
            Watch::Panicked(s) => problems.push(("accepted-but-receiver-panicked".into(), json!({"panic": s}))),
        }
    } else {
        // refused: nothing retained, channel usable for other messages
        released(&kept, "refused", &mut problems);
        *nonce += 1;
        let id2 = *nonce;
        let ok = tx.send((Blob(body(id2, 50)), vec![])).is_ok();
        let mut got_ok = false;
        // a partially transmitted refused message may precede it; skip error results
        for _ in 0..4 {
            match rx.try_recv() {
                Ok((b, a)) => {
                    if a.is_empty() && body_diff(id2, 50, &b.0).is_none() {
                        got_ok = true;
                        break;
                    } else {
                        problems.push(("refused-message-was-delivered".into(), json!({"attachments": a.len(), "len": b.0.len()})));
                    }
                },
                Err(TryRecvError::Empty) => break,
                Err(_) => continue,
            }
        }
        if !ok || !got_ok {
            problems.push(("channel-unusable-after-refusal".into(), json!({"send_ok": ok, "delivered": got_ok})));
        }
    }
    (problems, accepted)
}

pub fn run(ctx: &Ctx) {
    let rep = &ctx.rep;
    let sz = sizes();
    let counts: Vec<usize> = if ctx.thorough || ctx.opt_u64("all", 0) == 1 {
        (0..=300).collect()
    } else {
        let mut v: Vec<usize> = (0..=80).collect();
        v.extend((96..=300).step_by(16));
        v.extend([252, 253, 254, 255, 300]);
        v.sort();
        v.dedup();
        v
    };
    let mut nonce = ctx.batch << 40;
    let mut idx = 0u64;
    let mut first_refused = [[usize::MAX; 6]; 4];
    let mut last_accepted = [[0usize; 6]; 4];
    // second pass over the boundary region with the first (and the first two) transmission
    // attempts refused for lack of buffer space
    let with_faults = is_os() && mon().is_some();
    if with_faults {
        let mut fidx = 0u64;
        for mix in 0..4 {
            for data in [1usize, 2, 3, 5] {
                for pat in [1u64, 3] {
                    fidx += 1;
                    if fidx % ctx.nbatch != ctx.batch {
                        continue;
                    }
                    for n in 56..=70usize {
                        let case = 100_000 + ((mix * 6 + data) as u64) * 1000 + pat * 100 + n as u64;
                        if !ctx.want(case) {
                            continue;
                        }
                        let _g = op_begin("send-with-many-attachments-under-enobufs", case);
                        let (problems, accepted) = run_one(&sz, n, mix, data, pat, &mut nonce);
                        drop(_g);
                        rep.case(&(mix, data, n, sz.sndbuf, pat), true);
                        rep.stat("sends_with_refused_attempts", 1);
                        rep.stat(if accepted { "accepted_after_refused_attempt" } else { "refused_after_refused_attempt" }, 1);
                        let base = json!({"attachments": n, "mixture": MIX[mix], "data": DATA[data], "sndbuf": sz.sndbuf, "accepted": accepted,
                            "enobufs_pattern": pat, "variant": variant()});
                        let mut seen = std::collections::BTreeSet::new();
                        for (k, d) in problems {
                            if k == "harness-undecided" {
                                rep.inconclusive(&format!("c15 case {}: {}", case, d));
                                continue;
                            }
                            if seen.insert(k.clone()) {
                                rep.violation(&format!("C15:{}:after-enobufs", k), json!({"ctx": base, "problem": d}), ctx.replay(case));
                            }
                        }
                        if rep.nviol.load(std::sync::atomic::Ordering::Relaxed) >= 12 {
                            return;
                        }
                    }
                }
            }
        }
    }
    for mix in 0..4 {
        for data in 0..5 {
            idx += 1;
            if idx % ctx.nbatch != ctx.batch {
                continue;
            }
            for &n in &counts {
                let case = ((mix * 5 + data) as u64) * 1000 + n as u64;
                if !ctx.want(case) {
                    continue;
                }
                let _g = op_begin("send-with-many-attachments", case);
                let (problems, accepted) = run_one(&sz, n, mix, data, 0, &mut nonce);
                drop(_g);
                rep.case(&(mix, data, n, sz.sndbuf), true);
                rep.stat("sends", 1);
                rep.stat(if accepted { "accepted" } else { "refused" }, 1);
                if accepted {
                    last_accepted[mix][data] = last_accepted[mix][data].max(n);
                } else {
                    first_refused[mix][data] = first_refused[mix][data].min(n);
                }
                let base = json!({"attachments": n, "mixture": MIX[mix], "data": DATA[data], "sndbuf": sz.sndbuf, "accepted": accepted, "variant": variant()});
                let mut seen = std::collections::BTreeSet::new();
                for (k, d) in problems {
                    if k == "harness-undecided" {
                        rep.inconclusive(&format!("c15 case {}: {}", case, d));
                        continue;
                    }
                    if seen.insert(k.clone()) {
                        rep.violation(&format!("C15:{}:{}", k, if data >= 3 { "fragmented" } else { "single-packet" }), json!({"ctx": base, "problem": d}), ctx.replay(case));
                    }
                }
                if n == 70 {
                    rep.sample(json!({"ctx": base, "clean": seen.is_empty()}));
                }
                if rep.nviol.load(std::sync::atomic::Ordering::Relaxed) >= 12 {
                    return;
                }
            }
            rep.stat_max(&format!("accepted_attachments_{}", if data >= 3 { "fragmented" } else { "single" }), last_accepted[mix][data] as i64);
            if first_refused[mix][data] != usize::MAX {
                rep.raw(json!({"t":"note","mixture": MIX[mix], "data": DATA[data], "last_accepted": last_accepted[mix][data], "first_refused": first_refused[mix][data]}));
            }
        }
    }
}
