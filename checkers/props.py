"""Per-property job plans, coverage requirements and evidence rules."""
import os
import re

SNDBUFS = [None, 4096, 8192, 16384, 65536, 4099, 9001, 20003]  # None = the real system value; odd values make SO_SNDBUF-40 a non-multiple of 8


def crash_signature(pid, job, rc, err):
    """Signature of a driver that died without a summary (panic/abort/signal)."""
    where = "unknown"
    m = re.findall(r"panic thread=\S+ at (\S+?):(\d+)", err)
    if m:
        inrepo = [x for x in m if x[0].startswith("/repo/")]
        f, _line = (inrepo[0] if inrepo else m[-1])
        f = f.replace("/repo/", "")
        if f.startswith("/rustc/"):
            f = "std:" + f.split("/library/")[-1]
        where = f
    elif "AddressSanitizer" in err:
        m2 = re.search(r"AddressSanitizer: ([a-z\-]+)", err)
        where = "asan-" + (m2.group(1) if m2 else "report")
    elif "unsafe precondition" in err:
        where = "ub-check"
    return "%s:driver-died:%s:%s:rc=%s" % (pid, job["family"], where, rc)


def job_from_replay(rj):
    r = rj["replay"]
    env = {k: v for k, v in (r.get("env") or {}).items() if v is not None}
    return {"variant": VARIANT_OF.get(r.get("variant"), r.get("variant")) if "-" not in str(r.get("variant")) else r["variant"],
            "family": r["family"], "seed": r["seed"], "batch": r["batch"], "nbatch": r["nbatch"],
            "tier": r["tier"], "case": r.get("case"), "opts": r.get("opts") or {}, "env": env}


VARIANT_OF = {"os": "os-debug", "memfd": "memfd-debug", "inproc": "inproc-debug"}


def jobs(variant, family, nbatch, env_of=None, opts=None, timeout=600, **kw):
    out = []
    for b in range(nbatch):
        j = {"variant": variant, "family": family, "batch": b, "nbatch": nbatch,
             "env": dict(env_of(b)) if env_of else {}, "opts": dict(opts or {}), "timeout": timeout}
        j.update(kw)
        out.append(j)
    return out


def miri_jobs(fams):
    """Shards of `cargo +nightly miri run --features inproc -- <family>`: the in-process transport and the
    generic ipc layer under the UB / data-race interpreter (the OS transport cannot run there)."""
    out = []
    for fam, n, opts in fams:
        for b in range(n):
            out.append({"variant": "inproc-miri", "runner": "miri", "family": fam, "batch": b, "nbatch": n, "env": {}, "opts": dict(opts),
                        "timeout": 3000, "tool": "miri", "preload": False})
    return out


# ------------------------------------------------------------------ C01

def c01_env(b):
    s = SNDBUFS[b % len(SNDBUFS)]
    e = {"IPCMON_POISON": "1"}
    if s:
        e["IPCMON_SNDBUF"] = s
    return e


def c01_plan(tier, seed):
    if tier == "quick":
        return jobs("os-debug", "c01", 16, c01_env, timeout=300) + \
            jobs("inproc-debug", "c01", 3, None, {"cap": 1 << 20, "huge": 0}, timeout=300)
    return jobs("os-debug", "c01", 64, c01_env, {"mult": 6}, timeout=3000) + \
        jobs("os-release", "c01", 32, c01_env, {"mult": 6}, timeout=3000) + \
        jobs("memfd-debug", "c01", 8, c01_env, {"mult": 2}, timeout=3000) + \
        jobs("inproc-debug", "c01", 8, None, {"huge": 0, "mult": 4}, timeout=3000)


def c01_require(agg):
    need = []
    st = agg["stats"]
    if st.get("boundary_messages", 0) < 200:
        need.append("fewer than 200 messages on packet boundaries")
    if len(st.get("sndbuf_reported_values", [])) < 4:
        need.append("fewer than 4 distinct send-buffer sizes exercised")
    if st.get("mon_poisoned_buffers", 0) == 0:
        need.append("receive-buffer poisoning never happened")
    return need


# ------------------------------------------------------------------ C02

def c02_env(b):
    e = {}
    sb = [8192, 16384, None, 4096][b % 4]
    if sb:
        e["IPCMON_SNDBUF"] = sb
    if b % 3 != 2:
        e["IPCMON_WIDEN"] = "1:%d:%d" % ([300, 1500, 4000][b % 3], (sb or 212992) // 2)
    if b % 5 in (1, 3):
        e["IPCMON_DELAY"] = "%d:%d:%d" % (b + 1, 150, 400)
    return e


def c02_plan(tier, seed):
    out = []
    n = 14 if tier == "quick" else 48
    for j in jobs("os-debug", "c02", n, c02_env, timeout=900):
        j["opts"]["cpus"] = [1, 2, 0][j["batch"] % 3]
        j["opts"]["histories"] = 40 if tier == "quick" else 500
        out.append(j)
    for j in jobs("inproc-debug", "c02", 6 if tier == "quick" else 12, None, timeout=900):
        j["opts"]["cpus"] = [0, 2][j["batch"] % 2]
        j["opts"]["histories"] = 60 if tier == "quick" else 500
        out.append(j)
    return out


def c02_require(agg):
    st = agg["stats"]
    need = []
    if st.get("overlapping_multipacket_pairs", 0) < 1:
        need.append("no pair of overlapping multi-packet sends from different handles")
    if st.get("ordered_pairs_cross_handle", 0) < 1:
        need.append("no real-time ordered pair of sends across different handles")
    if st.get("process_senders", 0) < 1:
        need.append("no sender process took part")
    if st.get("batches_os-debug", 0) and st.get("forked_senders", 0) < 1:
        need.append("no fork()ed sender with an inherited handle took part")
    return need


# ------------------------------------------------------------------ C03

def c03_env(b):
    e = {}
    if b % 2 == 1:
        e["IPCMON_DELAY"] = "%d:%d:%d" % (b + 7, 200, 600)
    if b % 4 == 2:
        e["IPCMON_WIDEN"] = "8:300:0"
    return e


def c03_plan(tier, seed):
    out = []
    for v, nb in (("os-debug", 10), ("memfd-debug", 2), ("inproc-debug", 4)):
        for j in jobs(v, "c03", nb if tier == "quick" else nb * 3, c03_env, {"cases": 100 if tier == "quick" else 2500}, timeout=1500):
            out.append(j)
    out += c03_race_jobs(tier)
    return out


def c03_race_jobs(tier, modes=(0, 1, 2, 3), per_mode=2):
    q = tier == "quick"
    out = []
    for m in modes:
        for k in range(per_mode if q else per_mode * 2):
            out.append({"variant": "os-debug" if k % 2 == 0 else "os-release", "family": "c03r", "batch": m + 4 * k, "nbatch": 16, "env": {},
                        "opts": {"rounds": 60000 if q else 1500000}, "timeout": 3000})
    # the in-process transport: one batch per observer (a receiver-set member is added while its
    # peer's first message is on its way)
    for m in modes:
        out.append({"variant": "inproc-debug", "family": "c03r", "batch": m, "nbatch": 16, "env": {}, "opts": {"rounds": 60000 if q else 400000}, "timeout": 3000})
    return out


def c03_require(agg):
    st = agg["stats"]
    need = []
    if st.get("finales", 0) < 50:
        need.append("fewer than 50 finales ran")
    for k in ("action_drop-handle", "action_drop-carrier(fresh)", "action_drop-carrier(program)", "observer_0", "observer_1", "observer_3"):
        if st.get(k, 0) < 1:
            need.append("no %s observed" % k)
    if st.get("action_child-exit", 0) + st.get("action_child-sigkill", 0) < 1:
        need.append("no sender handle was held by another process")
    if st.get("race_rounds", 0) < 200000:
        need.append("fewer than 200000 send-then-drop race rounds")
    return need


# ------------------------------------------------------------------ C04

def c04_env(b):
    e = {"IPCMON_POISON": "1"}
    sb = [None, 8192, 16384][b % 3]
    if sb:
        e["IPCMON_SNDBUF"] = sb
    return e


def c04_plan(tier, seed):
    out = []
    q = tier == "quick"
    out += jobs("os-debug", "c04", 10 if q else 24, c04_env, {"cases": 150 if q else 4000}, timeout=3000)
    out += jobs("memfd-debug", "c04", 2 if q else 6, c04_env, {"cases": 150 if q else 4000}, timeout=3000)
    out += jobs("inproc-debug", "c04", 3 if q else 6, None, {"cases": 150 if q else 4000}, timeout=3000)
    return out


def c04_require(agg):
    st = agg["stats"]
    need = []
    if st.get("identity_probes", 0) < 1000:
        need.append("fewer than 1000 identity probes")
    if st.get("multi_packet_values", 0) < 10:
        need.append("fewer than 10 multi-packet enclosing messages")
    if st.get("process_hops", 0) < 10:
        need.append("fewer than 10 hops through another process")
    if st.get("max_endpoints_in_one_message", 0) < 60:
        need.append("no message with >=60 attachments")
    if st.get("receivers_sent_by_shared_pointer", 0) < 50:
        need.append("fewer than 50 receivers sent by shared pointer")
    return need


# ------------------------------------------------------------------ C05

def c05_plan(tier, seed):
    q = tier == "quick"
    out = []
    for v, nb in (("os-debug", 6), ("memfd-debug", 5), ("inproc-debug", 3)):
        out += jobs(v, "c05", nb if q else nb * 3, None, {"cases": 200 if q else 5000, "cap": (1 << 20) if q else (8 << 20)}, timeout=3000)
    return out


def c05_require(agg):
    st = agg["stats"]
    need = []
    for k, n in (("zero_length_regions", 5), ("non_page_multiple_regions", 100), ("path_exec-child", 20), ("path_forked-child", 20), ("reread_after_drop", 50),
                 ("child_reread_after_carrier_dropped", 10), ("forked_creator_rounds", 3)):
        if st.get(k, 0) < n:
            need.append("%s < %d" % (k, n))
    return need


# ------------------------------------------------------------------ C06

def c06_env(b):
    e = {}
    sb = [8192, 16384, 8192, None][b % 4]
    if sb:
        e["IPCMON_SNDBUF"] = sb
    if b % 3 == 1:
        e["IPCMON_WIDEN"] = "%d:%d:0" % (4 | 2, 400)
    if b % 3 == 2:
        e["IPCMON_DELAY"] = "%d:%d:%d" % (b + 3, 100, 300)
    return e


def c06_plan(tier, seed):
    q = tier == "quick"
    out = jobs("os-debug", "c06", 12 if q else 32, c06_env, {"cases": 30 if q else 600}, timeout=3000)
    out += jobs("inproc-debug", "c06", 3 if q else 8, None, {"cases": 30 if q else 600}, timeout=3000)
    out += c03_race_jobs(tier, modes=(1,), per_mode=2)
    return out


def c06_post(agg, results, workdir, inconclusive):
    for v in agg["violations"]:
        if not v["sig"].startswith("C06:"):
            v["sig"] = "C06:via-" + v["sig"]


def c06_require(agg):
    st = agg["stats"]
    need = []
    if st.get("mon_epoll_full", 0) < 1:
        need.append("epoll_wait never returned a full event buffer (>10 members ready at once)")
    if st.get("mon_eintr_injected", 0) < 1:
        need.append("no EINTR injected into the wait")
    if st.get("real_signals_sent", 0) < 1:
        need.append("no real signal interrupted the wait")
    if st.get("quiesce_rounds", 0) < 20 or st.get("concurrent_rounds", 0) < 20:
        need.append("fewer than 20 quiesce or concurrent rounds")
    if st.get("max_members_in_one_set", 0) < 20:
        need.append("no set with >=20 members")
    return need


# ------------------------------------------------------------------ C07

def c07_env(b):
    e = {}
    sb = [8192, None, 16384][b % 3]
    if sb:
        e["IPCMON_SNDBUF"] = sb
    if b % 4 == 1:
        e["IPCMON_DELAY"] = "%d:%d:%d" % (b + 11, 120, 300)
    if b % 4 == 3:
        e["IPCMON_WIDEN"] = "%d:%d:0" % (4, 300)
    return e


def c07_plan(tier, seed):
    q = tier == "quick"
    out = jobs("os-debug", "c07", 12 if q else 32, c07_env, {"cases": 40 if q else 800}, timeout=3000)
    g = jobs("os-debug", "c07", 14 if q else 34, c07_env, {"cases": 10 if q else 100, "global": 1}, timeout=1800)
    out += g[-2:]
    sw = jobs("os-debug", "c07", 40, None, {"cases": 1200 if q else 25000, "small": 1}, timeout=3000)
    out += sw[4:36] if q else sw[0:40]
    st = jobs("os-debug", "c07", 60, c07_env, {"cases": 20 if q else 300, "storm": 1}, timeout=3000)
    out += st[40:43] if q else st[40:56]
    pr = jobs("os-debug", "c07", 80, None, {"cases": 8 if q else 120, "pair": 1}, timeout=3000)
    out += pr[40:80]
    out += jobs("inproc-debug", "c07", 2 if q else 6, None, {"cases": 40 if q else 300}, timeout=3000)
    return out


def c07_require(agg):
    st = agg["stats"]
    need = []
    if st.get("callback_routes", 0) < 100 or st.get("crossbeam_routes", 0) < 100:
        need.append("fewer than 100 callback or crossbeam routes")
    if st.get("prequeued_messages", 0) < 100:
        need.append("fewer than 100 messages queued before registration")
    if st.get("max_routes_in_one_router", 0) < 24:
        need.append("no router with >=24 routes")
    if st.get("pair_storm_trials", 0) < 5000:
        need.append("fewer than 5000 registration pairs")
    return need


# ------------------------------------------------------------------ C08

def c08_env(b):
    e = {}
    sb = [8192, None, 16384][b % 3]
    if sb:
        e["IPCMON_SNDBUF"] = sb
    if b % 4 == 2:
        e["IPCMON_DELAY"] = "%d:%d:%d" % (b + 5, 100, 300)
    return e


def c08_plan(tier, seed):
    q = tier == "quick"
    out = jobs("os-debug", "c08", 10 if q else 28, c08_env, {"cases": 40 if q else 500}, timeout=3000)
    out += jobs("inproc-debug", "c08", 2 if q else 4, None, {"cases": 40 if q else 250}, timeout=3000)
    return out


def c08_require(agg):
    st = agg["stats"]
    need = []
    for k in ("kind_0", "kind_1", "kind_2", "kind_3", "kind_4"):
        if st.get(k, 0) < 20:
            need.append("fewer than 20 scenarios of %s" % k)
    if st.get("process_clients", 0) < 20:
        need.append("fewer than 20 clients in another process")
    if st.get("accept_first_confirmed", 0) < 20:
        need.append("fewer than 20 accept-first scenarios confirmed inside accept(2)")
    if st.get("max_servers_alive_at_once", 0) < 30:
        need.append("fewer than 30 servers alive at once")
    return need


# ------------------------------------------------------------------ C09

def c09_env(b):
    e = {}
    sb = [None, 8192, None, 16384][b % 4]
    if sb:
        e["IPCMON_SNDBUF"] = sb
    if b % 2 == 1:
        e["IPCMON_WIDEN"] = "1:%d:%d" % (3000, (sb or 212992) // 2)
    if b % 5 == 2:
        e["IPCMON_DELAY"] = "%d:%d:%d" % (b + 13, 100, 300)
    return e


def c09_plan(tier, seed):
    q = tier == "quick"
    out = jobs("os-debug", "c09", 12 if q else 32, c09_env, {"cases": 300 if q else 6000}, timeout=3000)
    out += jobs("inproc-debug", "c09", 3 if q else 6, None, {"cases": 300 if q else 2000}, timeout=3000)
    return out


def c09_require(agg):
    st = agg["stats"]
    need = []
    for k, n in (("sends_after_vanish_err", 500), ("actor_2", 50), ("rxmode_1", 50), ("rxmode_2", 50), ("rxmode_3", 50), ("streams_with_multipacket", 10)):
        if st.get(k, 0) < n:
            need.append("%s < %d" % (k, n))
    return need


# ------------------------------------------------------------------ C10

def c10_env(b):
    e = {}
    if b % 3 == 1:
        e["IPCMON_WIDEN"] = "2:300:0"
    if b % 3 == 2:
        e["IPCMON_DELAY"] = "%d:%d:%d" % (b + 17, 100, 300)
    return e


def c10_plan(tier, seed):
    q = tier == "quick"
    out = jobs("os-debug", "c10", 13 if q else 32, c10_env, {"cases": 80 if q else 500}, timeout=600 if q else 3000)
    out += jobs("inproc-debug", "c10", 3 if q else 8, None, {"cases": 80 if q else 500}, timeout=600 if q else 3000)
    return out


def c10_require(agg):
    st = agg["stats"]
    need = []
    for k, n in (("result_msg", 200), ("result_empty", 500), ("result_disconnected", 100), ("timeout_empty_results", 300),
                 ("poison_probe_blocked-then-delivered", 50)):
        if st.get(k, 0) < n:
            need.append("%s < %d" % (k, n))
    return need


# ------------------------------------------------------------------ C11

def c11_plan(tier, seed):
    q = tier == "quick"
    out = jobs("os-debug", "c11", 9 if q else 24, None, {"programs": 40 if q else 3000}, timeout=3000)
    out += jobs("os-release", "c11", 4 if q else 12, None, {"programs": 40 if q else 3000}, timeout=3000)
    out += jobs("memfd-debug", "c11", 3 if q else 8, None, {"programs": 40 if q else 3000}, timeout=3000)
    # the crash grid of C12, judged on the receiving process's descriptors and mappings
    out += jobs("os-debug", "c12", 8, c12_env, {"max_packets": 3 if q else 5, "leakcheck": 1}, timeout=3000)
    return out


def c11_require(agg):
    st = agg["stats"]
    need = []
    for k, n in (("programs", 300), ("failing_operations", 100), ("cloexec_checked_descriptors", 1000), ("unrelated_children_spawned", 10), ("race_children_spawned", 400), ("race_descriptor_creating_operations", 20000),
                 ("crash_runs_checked_for_leaks", 100), ("interrupted_messages_with_attachments_checked_for_leaks", 30),
                 ("pest_descriptor_churn", 10000)):
        if st.get(k, 0) < n:
            need.append("%s < %d" % (k, n))
    return need


# ------------------------------------------------------------------ C12

def c12_env(b):
    return {"IPCMON_SNDBUF": 8192 if b % 8 != 7 else 16384}


def c12_plan(tier, seed):
    q = tier == "quick"
    out = jobs("os-debug", "c12", 16, c12_env, {"max_packets": 4 if q else 6}, timeout=3000)
    if not q:
        out += jobs("os-release", "c12", 16, c12_env, {"max_packets": 4}, timeout=3000)
        # the whole grid again at other packet sizes (every shape at every size, not one size per batch) and deeper
        for sb in (4099, 12291, 16384):
            out += jobs("os-debug", "c12", 16, lambda b, sb=sb: {"IPCMON_SNDBUF": sb}, {"max_packets": 6}, timeout=3000)
        out += jobs("os-debug", "c12", 16, lambda b: {"IPCMON_SNDBUF": 8192}, {"max_packets": 9}, timeout=3000)
    return out


def c12_require(agg):
    st = agg["stats"]
    need = []
    for k, n in (("crash_mid-send", 100), ("crash_before-send", 20), ("crash_after-send", 20), ("runs_with_partial_message", 50), ("shapes", 64)):
        if st.get(k, 0) < n:
            need.append("%s < %d" % (k, n))
    return need


# ------------------------------------------------------------------ C13

def c13_plan(tier, seed):
    out = []
    for sb in (8192, 16387):
        out += jobs("os-debug", "c13", 10, lambda b, sb=sb: {"IPCMON_SNDBUF": sb, "IPCMON_POISON": "1"}, {"all": 1}, timeout=3000)
    if tier != "quick":
        # beyond the stated grid: the same 1024 patterns laid over later attempts of the send (a 6-packet send under
        # faults makes dozens), two more reported buffer sizes, and the release build
        for sb in (8192, 16387):
            for off in (5, 10, 20):
                out += jobs("os-debug", "c13", 10, lambda b, sb=sb: {"IPCMON_SNDBUF": sb, "IPCMON_POISON": "1"}, {"all": 1, "off": off}, timeout=3000)
        for sb in (4096, 12291):
            for off in (0, 10):
                out += jobs("os-debug", "c13", 10, lambda b, sb=sb: {"IPCMON_SNDBUF": sb, "IPCMON_POISON": "1"}, {"all": 1, "off": off}, timeout=3000)
        for sb in (8192, 16387):
            out += jobs("os-release", "c13", 10, lambda b, sb=sb: {"IPCMON_SNDBUF": sb, "IPCMON_POISON": "1"}, {"all": 1}, timeout=3000)
    return out


def c13_require(agg):
    st = agg["stats"]
    need = []
    if st.get("mon_enobufs_injected", 0) < 1000:
        need.append("fewer than 1000 ENOBUFS injections")
    if st.get("sends_ok", 0) < 200 or st.get("sends_err", 0) < 200:
        need.append("fewer than 200 successful or failed sends")
    if len(st.get("sndbuf_reported_values", [])) < 0:
        need.append("x")
    return need


# ------------------------------------------------------------------ C14

def c14_plan(tier, seed):
    q = tier == "quick"
    out = jobs("os-debug", "c14", 8 if q else 16, None, {"cases": 1500 if q else 40000}, timeout=3000)
    out += jobs("os-release", "c14", 2 if q else 6, None, {"cases": 1500 if q else 40000}, timeout=3000)
    out += jobs("inproc-debug", "c14", 3 if q else 6, None, {"cases": 1500 if q else 40000}, timeout=3000)
    return out


def c14_require(agg):
    st = agg["stats"]
    return ["fewer than 100 scenarios of kind %d" % k for k in range(6) if st.get("kind_%d" % k, 0) < 100]


# ------------------------------------------------------------------ C15

def c15_plan(tier, seed):
    out = jobs("os-debug", "c15", 10, lambda b: {"IPCMON_SNDBUF": 8192}, {"all": 1}, timeout=3000)
    out += jobs("os-release", "c15", 10, lambda b: {"IPCMON_SNDBUF": 16384}, {"all": 1}, timeout=3000)[:3 if tier == "quick" else 10]
    out += jobs("inproc-debug", "c15", 5, None, timeout=3000)[:2 if tier == "quick" else 5]
    return out


def c15_require(agg):
    st = agg["stats"]
    need = []
    if st.get("accepted", 0) < 500 or st.get("refused", 0) < 300:
        need.append("fewer than 500 accepted or 300 refused sends")
    if st.get("sends_with_refused_attempts", 0) < 200 or st.get("accepted_after_refused_attempt", 0) < 50:
        need.append("fewer than 200 sends with refused attempts (50 accepted)")
    return need


# ------------------------------------------------------------------ C16

def c16_plan(tier, seed):
    q = tier == "quick"
    out = jobs("os-debug", "c16", 10 if q else 20, None, {"cases": 2000 if q else 60000}, timeout=3000)
    out += jobs("os-release", "c16", 5 if q else 10, None, {"cases": 2000 if q else 60000}, timeout=3000)
    out += jobs("memfd-debug", "c16", 1 if q else 4, None, {"cases": 2000 if q else 60000}, timeout=3000)
    return out


def c16_require(agg):
    st = agg["stats"]
    need = []
    for k in ("input_random-bytes", "input_valid", "input_mutated-valid", "input_tampered-indices", "input_other-type", "input_receive-and-drop"):
        if st.get(k, 0) < 300:
            need.append("%s < 300" % k)
    if st.get("outcome_ok", 0) < 300 or st.get("outcome_err", 0) < 300:
        need.append("fewer than 300 Ok or Err outcomes")
    return need


# ------------------------------------------------------------------ C17

def c17_env(b):
    e = {}
    if b % 3 == 1:
        e["IPCMON_DELAY"] = "%d:%d:%d" % (b + 19, 120, 300)
    if b % 3 == 2:
        e["IPCMON_WIDEN"] = "4:300:0"
    return e


def c17_plan(tier, seed):
    q = tier == "quick"
    out = jobs("os-debug", "c17", 12 if q else 28, c17_env, {"cases": 60 if q else 1000}, timeout=3000)
    out += jobs("inproc-debug", "c17", 3 if q else 6, None, {"cases": 60 if q else 400}, timeout=3000)
    return out


def c17_require(agg):
    st = agg["stats"]
    need = []
    for k, n in (("stop_shutdown", 100), ("stop_proxy-drop", 50), ("racing_add_route_threads", 50), ("racing_add_route_calls", 3000), ("callback_invocations", 1000)):
        if st.get(k, 0) < n:
            need.append("%s < %d" % (k, n))
    return need


# ------------------------------------------------------------------ C18

ASAN = "halt_on_error=1:abort_on_error=1:detect_leaks=%d:malloc_fill_byte=202:max_malloc_fill_size=1073741824:detect_stack_use_after_return=0"


def c18_plan(tier, seed):
    q = tier == "quick"
    out = []

    def asan(family, batches, nbatch, env, opts, leaks=1):
        for b in batches:
            e = {"ASAN_OPTIONS": ASAN % leaks, "IPCMON_POISON": "1"}
            e.update(env(b) if callable(env) else env)
            out.append({"variant": "os-asan", "family": family, "batch": b, "nbatch": nbatch, "env": e, "opts": dict(opts), "timeout": 3000})

    sb = lambda b: ({"IPCMON_SNDBUF": SNDBUFS[b % len(SNDBUFS)]} if SNDBUFS[b % len(SNDBUFS)] else {})
    asan("c01", range(8) if q else range(16), 16, sb, {"cap": 1 << 20 if q else 4 << 20, "huge": 0})
    asan("c04", range(3) if q else range(9), 9, lambda b: {"IPCMON_SNDBUF": [8192, 16384, 8192][b % 3]}, {"cases": 25 if q else 300}, leaks=0)
    asan("c05", range(2) if q else range(6), 6, {}, {"cases": 25 if q else 300, "huge": 0, "cap": 1 << 18})
    asan("c13", [2, 5, 9] if q else range(10), 10, {"IPCMON_SNDBUF": 8192}, {} if q else {"all": 1})
    asan("c15", [1, 4, 7] if q else range(10), 10, {"IPCMON_SNDBUF": 8192}, {})
    asan("c12", [5, 13] if q else range(16), 16, {"IPCMON_SNDBUF": 8192}, {"max_packets": 2 if q else 4}, leaks=0)
    asan("c18", [0], 1, {}, {"rounds": 6 if q else 60})
    out += jobs("os-debug", "c18", 1, None, {"rounds": 12 if q else 150}, timeout=3000)
    out += jobs("memfd-debug", "c18", 1, None, {"rounds": 6 if q else 60}, timeout=3000)
    vg = ["valgrind", "-q", "--error-exitcode=99", "--suppressions=%s/memcheck.supp" % os.path.dirname(os.path.abspath(__file__)),
          "--errors-for-leak-kinds=none", "--leak-check=no"]
    if q:
        # a small memcheck leg in the quick tier too (no poisoning: definedness of received bytes)
        for fam, b, nb, env, opts in (("c01", 1, 16, {"IPCMON_SNDBUF": 8192}, {"cap": 1 << 16, "huge": 0}), ("c01", 5, 16, {"IPCMON_SNDBUF": 4099}, {"cap": 1 << 16, "huge": 0}),
                                      ("c13", 3, 10, {"IPCMON_SNDBUF": 8192}, {}), ("c18", 0, 1, {}, {"rounds": 2})):
            e = dict(env)
            e["VERIF_DEFINEDNESS"] = "1"
            out.append({"variant": "os-release", "family": fam, "batch": b, "nbatch": nb, "env": e, "opts": dict(opts), "timeout": 3000, "wrap": vg, "tool": "memcheck"})
    if not q:
        out += miri_jobs([("c19", 4, {"programs": 6}), ("c04", 2, {"cases": 3}), ("c05", 2, {"cases": 4, "cap": 20000, "huge": 0}),
                          ("c14", 2, {"cases": 12}), ("c03", 2, {"cases": 3}), ("c03r", 1, {"rounds": 40})])
        for fam, nb, env, opts in (("c01", 5, sb, {"cap": 1 << 18, "huge": 0}), ("c05", 2, {}, {"cases": 30, "huge": 0, "cap": 1 << 16}),
                                   ("c13", 2, {"IPCMON_SNDBUF": 8192}, {}), ("c18", 1, {}, {"rounds": 4})):
            for b in range(nb):
                e = dict(env(b) if callable(env) else env)
                e["VERIF_DEFINEDNESS"] = "1"
                out.append({"variant": "os-release", "family": fam, "batch": b, "nbatch": max(nb, 10) if fam == "c13" else nb, "env": e, "opts": dict(opts),
                            "timeout": 3000, "wrap": vg, "tool": "memcheck"})
    return out


def c18_post(agg, results, workdir, inconclusive):
    for v in agg["violations"]:
        if not v["sig"].startswith("C18:"):
            v["sig"] = "C18:via-" + v["sig"]
    tools = {}
    for job, recs, rc, err, wall in results:
        t = job.get("tool") or ("asan" if job["variant"] == "os-asan" else "ub_checks")
        if job.get("tool") == "miri" and rc != 0 and not job.get("sanitizer") and "unsupported operation" in err:
            inconclusive.append("miri shard %s/%d hit an unsupported operation" % (job["family"], job["batch"]))
        tools[t + ":" + job["family"]] = tools.get(t + ":" + job["family"], 0) + 1
        if job.get("tool") == "memcheck" and rc == 99 and not job.get("sanitizer"):
            agg["violations"].append({"t": "viol", "sig": "C18:memcheck-error:%s" % job["family"], "detail": {"stderr_tail": err[-1500:].splitlines()},
                                      "replay": {"family": job["family"], "seed": job["seed"], "batch": job["batch"], "nbatch": job["nbatch"], "tier": job["tier"],
                                                 "case": None, "variant": job["variant"], "opts": job.get("opts", {}), "env": job.get("env", {})}})
    agg["stats"]["batches_by_tool_and_generator"] = tools
    agg["stats"]["sanitizer_reports"] = len([v for v in agg["violations"] if "sanitizer-report" in v["sig"] or "memcheck" in v["sig"]])


def c18_require(agg):
    st = agg["stats"]
    need = []
    t = st.get("batches_by_tool_and_generator", {})
    for g in ("asan:c01", "asan:c04", "asan:c05", "asan:c12", "asan:c13", "asan:c15", "asan:c18", "ub_checks:c18", "memcheck:c01"):
        if t.get(g, 0) < 1:
            need.append("no batch of %s" % g)
    if st.get("mon_poisoned_buffers", 0) < 1000:
        need.append("fewer than 1000 poisoned receive buffers")
    if st.get("zero_length_rounds", 0) < 5:
        need.append("fewer than 5 zero-length region rounds")
    return need


# ------------------------------------------------------------------ C20

def c20_env(b):
    e = {}
    if b % 3 == 1:
        e["IPCMON_DELAY"] = "%d:%d:%d" % (b + 23, 120, 300)
    if b % 3 == 2:
        e["IPCMON_WIDEN"] = "4:300:0"
    return e


def c20_plan(tier, seed):
    q = tier == "quick"
    return jobs("async-debug", "c20", 14 if q else 32, c20_env, {"cases": 40 if q else 900}, timeout=3000)


def c20_require(agg):
    st = agg["stats"]
    need = []
    for k, n in (("streams", 500), ("queued_before_conversion", 500), ("pending_polls", 100), ("wakeups_observed", 100),
                 ("consumer_block_on", 100), ("consumer_LocalPool", 100), ("consumer_manual", 100), ("pair_storm_trials", 5000)):
        if st.get(k, 0) < n:
            need.append("%s < %d" % (k, n))
    if st.get("max_streams_in_one_scenario", 0) < 24:
        need.append("no scenario with >=24 streams")
    return need


# ------------------------------------------------------------------ C19

def c19_plan(tier, seed):
    out = []
    nb = 5 if tier == "quick" else 15
    for v in ("os-debug", "memfd-debug", "inproc-debug"):
        for j in jobs(v, "c19", nb, None, {"programs": 600 if tier == "quick" else 12000}, timeout=1500):
            out.append(j)
    if tier != "quick":
        out += miri_jobs([("c19", 8, {"programs": 6})])
    return out


def c19_post(agg, results, workdir, inconclusive):
    """Differential step: the normalised trace of every program must be identical in all builds."""
    by_prog = {}
    for job, recs, rc, err, wall in results:
        for r in recs:
            if r.get("t") == "prog":
                by_prog.setdefault(r["prog"], {})[job["variant"]] = (r["trace"], r["ops"], r["n"], job)
    compared = 0
    disagreements = 0
    for prog, d in sorted(by_prog.items()):
        if len(d) < 3:
            continue
        compared += 1
        traces = {v: t[0] for v, t in d.items()}
        if len(set(traces.values())) > 1:
            disagreements += 1
            job = list(d.values())[0][3]
            agg["violations"].append({"t": "viol", "sig": "C19:transports-disagree",
                                      "detail": {"program": prog, "trace_hashes": traces, "steps": {v: t[2] for v, t in d.items()}},
                                      "replay": {"family": "c19", "seed": job["seed"], "batch": job["batch"], "nbatch": job["nbatch"],
                                                 "tier": job["tier"], "case": prog, "variant": "os-debug", "opts": job.get("opts", {}), "env": {}}})
    agg["stats"]["programs_compared_across_3_builds"] = compared
    agg["stats"]["trace_disagreements"] = disagreements
    if compared == 0:
        inconclusive.append("no program was executed on all three builds")
    if agg["stats"].get("set_member_bursts", 0) < 50:
        inconclusive.append("fewer than 50 bursts on receiver-set members")


HOOKS = {
    "guard": "ipc_channel_verif",
    "enable": "no source hooks are used: every monitor observes the public API, the libc boundary (LD_PRELOAD interposer), /proc or sanitizer instrumentation; checks build /repo unmodified",
    "baseline_off_cmd": "cd /repo && cargo test --workspace --no-fail-fast --offline",
    "source_commits": [],
    "add_only": True,
}

NOTES = ("Runtime monitoring and sanitizers. ./check <id> rebuilds the harness (path-dependency on /repo) for the variants the "
         "property needs, runs seeded scenario batches 16-wide, applies known_findings.json and writes evidence/<id>.json. "
         "Exit 2 + INCONCLUSIVE means the monitors saw too little or a watchdog fired; it is never a verdict.")

NOT_APPLICABLE = {}

PROPS = {
    "C20": {
        "plan": c20_plan,
        "require": c20_require,
        "level": "exploration",
        "level_text": "Exploration (async feature build): 1..32 receivers with 0..50 messages each, up to 25 of them queued before conversion, are turned into streams from "
                      "1..8 threads and consumed by three kinds of executor - block_on, a LocalPool running several streams on one thread, and manual poll_next with a "
                      "counting waker - while 1..5 producer threads send the rest and drop the senders at seeded points. Each stream must yield exactly 0..n-1 with its own "
                      "tag and intact payloads, then None, never None before the last sender's drop began and nothing after None; after a Pending result the registered "
                      "waker must be invoked (the consumer waits for it instead of polling speculatively). Idle-burst scenarios (a burst of conversions, then one message at a time, last-created stream first) and pair storms (two conversions 0..150 us apart, the second receiver already holding a message, then silence) aim at registrations the routing thread overlooks.",
        "level_note": "'Never ends' and 'waker never invoked' are decided by the logical wait (20 s grace, then all other threads asleep without CPU use).",
        "technique": "runtime monitoring: per-stream item logs with stamps and a counting waker across three executor kinds, logical hang detection for end-of-stream and wake-ups",
        "rule": "case = one scenario of streams; distinct = per-stream (consumer kind, min(queued-before,3), min(messages,3)) sequence with the converting-thread count; "
                "non-trivial = at least two streams",
        "assumptions": ["the async router is a process-wide singleton; every scenario of a batch shares it"],
    },
    "C18": {
        "plan": c18_plan,
        "post": c18_post,
        "require": c18_require,
        "level": "exploration",
        "level_text": "Exploration under sanitizers: the shape generators of C01 (lengths around every buffer boundary, five reported send-buffer sizes), C04 (0..63 attachments, "
                      "multi-hop), C05 (regions), C12 (truncated transfers after a sender crash), C13 (ENOBUFS retries) and C15 (attachment counts) run in an "
                      "AddressSanitizer build of the crate (halt_on_error, LeakSanitizer where the generator does not leak on purpose, malloc fill 0xCA) with the "
                      "interposer chained so that every receive buffer is poisoned before the kernel fills it; their payload oracles check exact lengths and contents. "
                      "Zero-length and odd-length regions are exercised at platform and ipc level in debug builds (std ub_checks abort on null/unaligned raw slices) "
                      "and under ASan; every munmap is paired with its mmap by the interposer's ledger. Thorough adds valgrind memcheck on the release build without "
                      "poisoning (definedness of received bytes, one exact-signature suppression for sender-side cmsg padding).",
        "level_note": "ASan is a red-zone tool: overflows that stay inside one allocation or jump past the red zones, and anything inside mmap'ed regions, are not seen by it; "
                      "valgrind marks the whole requested length of recv()/recvfrom() as written, so a short follow-up read is invisible to memcheck (only recvmsg is tracked precisely); "
                      "the payload oracles and the mmap ledger cover part of that gap. Miri cannot execute the OS transport (sendmsg).",
        "technique": "sanitizers: AddressSanitizer + LeakSanitizer build with LD_PRELOAD receive-buffer poisoning, std ub_checks in debug builds, mmap/munmap ledger, valgrind memcheck (thorough)",
        "rule": "case = one generated message/region/crash/fault shape of the reused generators executed under a sanitizer; distinct = the generator's own shape key; all are non-trivial",
        "assumptions": ["the sender-side control-buffer padding reported by memcheck is benign and suppressed by exact signature"],
    },
    "C17": {
        "plan": c17_plan,
        "require": c17_require,
        "level": "exploration",
        "level_text": "Exploration: fresh routers with 0..16 live routes (callback with drop guards, crossbeam-forwarding) and producers sending continuously are stopped "
                      "either by shutdown() from 1..4 threads racing add_route from 0..8 others (single offers, or up to 150 prepared routes offered back to back per thread while the first shutdown waits for a seeded number of offers), or by dropping the proxy, while the producers keep sending and further "
                      "routes are offered afterwards. Stamped logs decide: no callback invocation starts after shutdown's first return; every previously registered "
                      "guard fired by then (proxy drop: eventually, by the logical wait); racing routes are dropped by the time both calls returned; routes offered "
                      "after the stop are dropped uninvoked; crossbeam consumers are disconnected; the process-wide panic hook stayed silent; every stop call returned.",
        "level_note": "'Every call returns' and 'eventually dropped' use the logical hang rule (all other threads asleep without CPU use) after a 20 s grace.",
        "technique": "runtime monitoring: stamped callback/drop-guard logs against shutdown return stamps, process-wide panic hook, logical hang detection on shutdown/add_route",
        "rule": "case = one router scenario; distinct = hash of the invoke/drop event order by route together with the stop kind; all are non-trivial",
        "assumptions": ["callbacks log their start stamp as their first action"],
    },
    "C16": {
        "plan": c16_plan,
        "require": c16_require,
        "level": "exploration",
        "level_text": "Exploration: raw (bytes, channels, regions) triples are injected at platform level into a channel whose receiver is re-typed for each of 14 expected "
                      "types (integers, strings, vectors, option, enum, sender, receiver, region, a struct nesting vectors of endpoints/regions, a pair of senders): random "
                      "bytes 0..4096, valid encodings, bit-flipped / truncated / extended / overwritten encodings, encodings with out-of-range, far, usize::MAX and duplicate "
                      "attachment indices, valid encodings of another type, each with 0..8 attachments, decoded through try_recv and through a receiver set, plus "
                      "receive-and-drop without decoding. The 14th type receives, inside its own deserialisation, a mismatched inner message from the receiver it has just decoded: the inner decode must fail or yield its own attachment, never one of the enclosing message, which must still decode with its endpoints in place. The outcome must be Ok or Err - no panic (hook + catch_unwind), no abort (exit status with a journal of the last "
                      "input); endpoints in an Ok value are identity-probed against the attached set; afterwards every attachment's counterpart must observe closure and "
                      "the descriptor count must match. Debug, release and memfd builds.",
        "level_note": "OS transports only (the in-process backend panics on type confusion by design and is outside the property's anchors). A receiving end referenced "
                      "where a sender is expected is an attached endpoint and only counted as unverifiable.",
        "technique": "runtime monitoring: platform-level message injection (structured fuzzing of encodings and attachment indices) with panic/abort, identity-probe and release oracles",
        "rule": "case = one injected message; distinct = (expected type, input kind, index tampering mode, min(channels,3), min(regions,3), receive path, length bucket); all are non-trivial",
        "assumptions": ["platform-level zero-length regions are excluded here and covered by C18"],
    },
    "C15": {
        "plan": c15_plan,
        "require": c15_require,
        "level": "exploration",
        "exhaustive": True,
        "level_text": "Sweep: attachment counts 0..300 (every count, in both tiers) x mixtures {senders, receivers, "
                      "regions, mixed} x data {empty, small, exactly one packet, one byte over, multi-packet}. A refused send must leave the channel usable and retain "
                      "nothing; an accepted send must be received (watched by the logical hang rule) with every attachment identity-probed in position. The grid is "
                      "finite and run completely in the thorough tier. The boundary region 56..70 is repeated with the first one or two transmission attempts refused with ENOBUFS by the interposer (the fallback to fragmenting adds a descriptor).",
        "level_note": "Packets are made small with a reported SO_SNDBUF so both ends can run in one thread. The in-process transport has no limit and must deliver everything it accepts.",
        "technique": "runtime monitoring: exhaustive attachment-count sweep with identity probes, refusal/usable-afterwards oracle and hang detection on the receive",
        "rule": "case = (mixture, data class, attachment count, reported SO_SNDBUF); distinct = that tuple; all are non-trivial",
        "assumptions": [],
    },
    "C14": {
        "plan": c14_plan,
        "require": c14_require,
        "level": "exploration",
        "level_text": "Exploration: thousands of generated scenarios of six kinds - serialisation failing (serde custom error / bincode's own error) after 0..k of n embedded "
                      "senders, receivers and regions; transmission rejected by the OS; sends nested to depth 1..3 inside Serialize impls with attachments before, inside "
                      "and after the nested call, also with the innermost send failing (serialisation error or closed receiver) and the error swallowed or propagated; a "
                      "receive inside a Deserialize impl - each followed by three ordinary messages with attachments from the same thread. Counterparts of every embedded "
                      "endpoint must observe disconnection after a failed send, every delivered message must carry exactly its own attachments (identity probes), and the "
                      "descriptor count must return to the baseline.",
        "level_note": "A panic inside the library during a scenario is reported as a violation and ends the batch (thread-local state is unknown afterwards).",
        "technique": "runtime monitoring: failing/nesting Serialize and Deserialize impls with counterpart-disconnection, identity-probe and descriptor-balance oracles",
        "rule": "case = one scenario; distinct = its parameter tuple (kind, attachment counts, failure position, depth, failure mode, propagation); every case is non-trivial",
        "assumptions": [],
    },
    "C13": {
        "plan": c13_plan,
        "require": c13_require,
        "level": "fault_enumeration",
        "exhaustive": True,
        "level_text": "Fault enumeration: ENOBUFS is injected at the libc boundary on bit patterns over the first 10 transmission attempts of one send, for message shapes "
                      "{<=2000 B, one packet >2000 B, 2, 3, 6 packets} x {no attachments, 3 senders + 3 regions} x two reported send-buffer sizes. Both tiers run all 1024 "
                      "patterns per cell (20480 sends, exhaustive inside the grid). The thorough tier adds, beyond the stated grid, the same 1024 patterns laid over "
                      "attempts 5..15, 10..20 and 20..30 of the send, reported buffer sizes 4096 and 12291, and the release build (12 further grids of 10240 sends). "
                      "Success must deliver exactly the message with probed attachments; failure must not deliver an altered, short or duplicated message; a "
                      "follow-on message must arrive in both cases; no packet may be received truncated (MSG_TRUNC/MSG_CTRUNC).",
        "level_note": "Injected ENOBUFS replaces the real transmission attempt (nothing is sent), which is what the kernel does when it cannot allocate the buffer. "
                      "Both ends run in one thread because the real socket buffer is larger than the whole (small-packet) message.",
        "technique": "runtime monitoring: exhaustive ENOBUFS pattern injection through the LD_PRELOAD interposer with payload, attachment-identity and truncation-flag oracles",
        "rule": "case = (shape, attachments, 10-bit ENOBUFS pattern, reported SO_SNDBUF, index of the first attempt the pattern covers); distinct = that tuple; every case is non-trivial (pattern 0 is the fault-free control)",
        "assumptions": ["ENOBUFS only ever comes from the transmission calls sendmsg/send"],
    },
    "C12": {
        "plan": c12_plan,
        "require": c12_require,
        "level": "fault_enumeration",
        "exhaustive": True,
        "level_text": "Fault enumeration, exhaustive inside the grid: for every shape in packets 1..3 (quick) / 1..6 (thorough) x attachments {none, foreign sender + region + a clone of the sender the message is sent on} x "
                      "surviving sender {0,1} x observer {recv, try_recv, select, router}, an exec'd child is SIGKILLed before the k-th socketpair/sendmsg/send/close "
                      "of the target send for every k from 0 to one past the last call (learned by a counting run); the observer runs before or after the crash "
                      "in alternation. Earlier messages must arrive intact, the target intact or not at all, Disconnected/closure only without a survivor, the "
                      "survivor's later messages must arrive in order and the observer must not wait forever (logical hang rule). A target whose send returned in the child (the child records it before exiting) must be delivered; when the target carries attachments the survivor's messages carry their own, checked by content.",
        "level_note": "Crash points are the libc-level system-call boundaries of the sending thread; a crash in the middle of a system call is not distinguishable "
                      "from one before or after it at this level (the kernel completes or does not start a sendmsg). Packets are made small with a reported SO_SNDBUF of 8 KiB (one batch in eight: 16 KiB); the thorough tier repeats the whole grid at 4099, 12291 and 16384 bytes and once with up to 9 packets.",
        "technique": "runtime monitoring: exhaustive crash-point injection (SIGKILL before the k-th interposed call) with an outcome oracle over four observer kinds",
        "rule": "case = (packets, attachments, survivor, observer, crash index k, reported SO_SNDBUF); every k in 0..=N for the N calls the send makes is run; distinct = that tuple; all are non-trivial",
        "assumptions": ["SIGKILL delivered by the interposer immediately before the k-th call stands for a crash at that boundary"],
    },
    "C11": {
        "plan": c11_plan,
        "require": c11_require,
        "level": "exploration",
        "level_text": "Exploration: model-generated operation sequences of up to 400 operations over the public API - including connects to missing names, injected "
                      "failures of socketpair/bind/listen/setsockopt and sends to closed receivers - run while a pest thread churns foreign descriptors; after every "
                      "program, with every handle dropped, the descriptor table, shared mappings, TMPDIR and /dev/shm must equal the baseline; the interposer's ledger "
                      "alarms on a close of a foreign descriptor, a close returning EBADF and a munmap whose length differs from the mmap; at seeded points every "
                      "non-baseline descriptor must be close-on-exec and an exec'd unrelated child must see none. A spawn race execs unrelated children while four threads create channels, regions, servers and unpack descriptors without pause (a descriptor inheritable for an instant shows up in a child's listing), and the crash grid of C12 (sender killed before each system call of a send with attachments) is judged on the receiving process's descriptors and mappings. Debug, release and memfd builds.",
        "level_note": "Leaks are judged at quiescent points against a post-warm-up baseline taken in the same process; the global ROUTER and lazily initialised "
                      "library state are warmed up first. Router stop paths are exercised by C17.",
        "technique": "runtime monitoring: /proc descriptor-table and mapping balance at quiescent points, LD_PRELOAD fd/mmap ledger with foreign-descriptor churn, FD_CLOEXEC and exec'd-child inheritance probes, fault-injected error paths",
        "rule": "case = one operation sequence (20..400 operations); distinct = hash of the operation list; non-trivial = more than three operations executed",
        "assumptions": ["descriptors at or above 1000 belong to the interposer's trace file", "leak detection is by balance, not by ownership tracking: a leak compensated by a wrong close would be seen by the ledger instead"],
    },
    "C10": {
        "plan": c10_plan,
        "require": c10_require,
        "level": "exploration",
        "level_text": "Exploration: seeded sequences of try_recv / try_recv_timeout(d) with d in {0, 100us, 900us, 1ms, 5ms, 50ms, 300ms, (thorough) 2s} run against a sender "
                      "thread that sends small or multi-packet messages or drops on a seeded schedule; every call and every send is stamped and the history is checked "
                      "offline (message only after it was sent and in order; Empty only if nothing was completely sent before the call - or, for timed calls, 50 ms "
                      "before the deadline; Disconnected only after the drop began and after the last message; timed Empty not earlier than floor(d) ms - 1 ms); "
                      "afterwards a blocking recv must be observed asleep in recvmsg and then return exactly the message sent next. In half of the cases the receiver is first moved through another channel.",
        "level_note": "Timing clauses use stamp order with explicit tolerances (1 ms clock tolerance, 50 ms lateness margin) so that machine load cannot flip a verdict; "
                      "'blocks' is decided by the logical hang rule. IpcBytesReceiver has no timed receive and is covered through try_recv in C01.",
        "technique": "runtime monitoring: stamped call/return histories of non-blocking and timed receives checked offline against the sender's stamped schedule, plus a /proc-observed poison probe",
        "rule": "case = one (sender schedule, receive-call sequence); distinct = sequence of (call kind, d, result kind); non-trivial = at least two receive calls",
        "assumptions": ["CLOCK_MONOTONIC stamps of two threads of one process are comparable"],
    },
    "C09": {
        "plan": c09_plan,
        "require": c09_require,
        "level": "exploration",
        "level_text": "Exploration: streams of 3..40 stamped sends (small, multi-packet up to 1 MiB, with and without attachments) from the same thread, another "
                      "thread or an exec'd process with SIGPIPE reset to its default, against a receiver that is dropped after k messages (also between the packets "
                      "of a multi-packet send), or sits in transit (one or two levels) and is then unpacked or lost with its carrier; a send that began after the "
                      "receiver vanished must return an error, a send that returned before must have succeeded, racing sends must return, the sender must not die "
                      "of a signal, and in-transit receivers must deliver everything in order once unpacked.",
        "level_note": "'Blocks forever' is decided logically: 20 s after the receiver vanished the sender is asleep in one system call with no CPU use while every "
                      "other actor has finished. Sends overlapping the drop may go either way.",
        "technique": "runtime monitoring: stamped send histories against a vanish event, logical hang detection on the sender, exit-status inspection of a SIGPIPE-default child",
        "rule": "case = one stream; distinct = (sender actor, receiver placement, drop position bucket, multi-packet flag, stream length bucket); every case is non-trivial",
        "assumptions": ["stamps from CLOCK_MONOTONIC are comparable between the sender process and the dropping process"],
    },
    "C08": {
        "plan": c08_plan,
        "require": c08_require,
        "level": "exploration",
        "level_text": "Exploration: 1..200 (40 in quick) one-shot servers alive at once are each finished in one of five orders (client done and gone before accept; "
                      "accept first - sequenced by observing the thread inside accept(2); send/accept/send; dropped unused; dropped with a connected client), with "
                      "thread and exec'd-process clients sending 1..20 mixed messages with probed attachments; after every finished server and at the end the "
                      "private TMPDIR and the descriptor table must be back to what they were. Names must be distinct among the servers alive together and over the whole "
                      "life of the process (a finished server's name must never be handed out again).",
        "level_note": "Clients that must be gone before accept send less than the socket buffer. Close-on-exec of the accepted socket is C11's clause. "
                      "The in-process transport is checked for names and messages only.",
        "technique": "runtime monitoring: order-enumerating bootstrap scenarios with /proc-sequenced accept-first, message oracle and fd/TMPDIR balance checks",
        "rule": "case = one batch of servers alive together with a finishing order per server; distinct = (server count, sequence of (order kind, client kind)); every case is non-trivial",
        "assumptions": ["TMPDIR is private to the batch, so every entry in it was made by the library"],
    },
    "C07": {
        "plan": c07_plan,
        "require": c07_require,
        "level": "exploration",
        "level_text": "Exploration: fresh routers (and the global ROUTER in dedicated processes) get 1..32 routes of all three kinds registered from 1..8 threads while "
                      "0..50 messages per route are queued before registration or in flight and senders drop at seeded points; every callback logs (route, tag, seq, stamp) "
                      "and owns a drop guard; the log must be exactly 0..n-1 per route with matching tags, the guard must fire once, after the last delivery and not "
                      "before the last sender's drop began; crossbeam routes must yield the same sequence and then disconnect. Swarm batches (thousands of tiny scenarios each ending with a registration that nothing follows), storm batches (120..400 routes registered back to back) and pair batches (two registrations 0..120 us apart on an idle router, the second with a message already queued, then silence) aim at lost wake-ups; every scenario runs under the per-case logical-hang watchdog.",
        "level_note": "Completion is awaited with a 20 s grace after every sender was dropped and every helper joined; 'never dropped' is only declared when all "
                      "other threads of the process are asleep without CPU use (nothing can happen any more). Proxies are leaked so that C17's stop path does not interfere.",
        "technique": "runtime monitoring: callback event log with drop guards and stamps, offline per-route sequence/tag/guard checker, delay injection around the proxy's sends",
        "rule": "case = one router scenario; distinct = hash of the global order of deliver/drop events by route together with the route count; non-trivial = at least two routes",
        "assumptions": ["callbacks run on the router thread only, so the event log order is the delivery order"],
    },
    "C06": {
        "plan": c06_plan,
        "post": c06_post,
        "require": c06_require,
        "level": "exploration",
        "level_text": "Exploration: receiver sets with 1..64 members (24 in quick) are driven through 2..5 rounds of bursts from 1..6 producer threads with members "
                      "added before, during and after traffic (also with traffic or closure already queued), senders dropped at seeded points, EINTR both "
                      "injected at epoll_wait and produced by real signals; an online oracle in the selecting thread checks per-member sequence, tags, "
                      "closed-once, live-id uniqueness and premature closure, and quiesce rounds turn a lost wake-up into a provably stuck select (rule 3.5).",
        "level_note": "Real signals are only sent while the selector sleeps in epoll_wait and only in single-packet scenarios, so that EINTR lands in the wait "
                      "the statement talks about. The in-process transport is driven with the same scenarios (never selecting on an empty set).",
        "technique": "runtime monitoring: online per-member sequence/closure oracle in the selecting thread, quiesce rounds with logical hang detection, EINTR and delay injection",
        "rule": "case = one set scenario (members x rounds x burst plan); distinct = hash of the sequence of select batch sizes per round together with the member "
                "count; non-trivial = at least two members",
        "assumptions": ["epoll edge-trigger semantics of this kernel; select() is only called while the harness knows an event is owed"],
    },
    "C05": {
        "plan": c05_plan,
        "require": c05_require,
        "level": "exploration",
        "level_text": "Exploration: thousands of regions with lengths dense around 0, 1, page+-1, 2 pages+-1 plus log-uniform lengths up to 32 MiB, created "
                      "by both constructors, cloned 0..3 times, sent 1..8 per message in shuffled order between endpoints, are compared byte for byte in "
                      "the creator, every clone, the receiving process (same process or an exec'd child reporting digests) and again after the sender's "
                      "copies and the carrying channel are gone; three backings (shm_open, memfd, in-process). Before anything else, forked relatives of the driver (which share its cached pid and region counter) create regions at the same time while the interposer keeps every new shm name linked 300 us longer.",
        "level_note": "Contents are regenerated from a per-region id, so any length or content mix-up between regions is visible; platform-level "
                      "zero-length regions belong to C18.",
        "technique": "runtime monitoring: content oracle on shared-memory regions across clones, processes and drop orders, three backings",
        "rule": "case = one region; distinct = (length class: offset to 0/page/2 pages or log2 bucket with page-alignment flag, constructor, regions in "
                "the message, clones, receive path, build); all counted cases are compared byte for byte",
        "assumptions": ["the exec'd reader reports FNV digests rather than raw bytes"],
    },
    "C04": {
        "plan": c04_plan,
        "require": c04_require,
        "level": "exploration",
        "level_text": "Exploration: hundreds (quick) to ~20k (thorough) generated values embedding 0..63 endpoints of seven kinds plus regions at random "
                      "positions of nested containers travel 1..5 hops through echo relays in other threads and exec'd processes; every endpoint leaf is "
                      "identity-probed with unique nonces against the counterpart the harness kept, travelling receivers must yield backlog ++ later "
                      "messages in order, and no kept receiver may see a stray nonce. Every fifth case sends a receiver through a shared pointer (Arc, serde rc) - the only way to keep the handle it was sent from - which must then receive nothing further while the transferred receiver yields everything in order.",
        "level_note": "Probes run in the originating process after the last hop; identity is established by unique nonces, so a swapped, "
                      "duplicated or misclassified descriptor shows up as a nonce on the wrong channel.",
        "technique": "runtime monitoring: identity probes with unique nonces over generated nested values and multi-hop cross-process transfer chains",
        "rule": "case = one generated value (shape string of containers and leaf kinds, small or padded to 2-4 packets) x hop sequence; distinct = "
                "(shape string, multi-packet flag, hop kinds); non-trivial = at least one endpoint or region embedded",
        "assumptions": ["probing after the final hop (not inside the relay processes) is sufficient because relays forward the value unchanged"],
    },
    "C03": {
        "plan": c03_plan,
        "require": c03_require,
        "level": "exploration",
        "level_text": "Exploration: model-generated histories of clone / embed / extract / drop over an acyclic family of <=6 channels are executed "
                      "step by step against an executable handle-counting model (premature or missing Disconnected is flagged at the step), and each "
                      "history ends in a finale in which all remaining sender handles of one channel - direct, in transit inside undelivered messages, "
                      "held by threads and by another process - are released from 1..4 threads in seeded orders while a blocked, timed or polling "
                      "observer watches; safety is decided on stamps, the wake-up clause by the logical hang rule (DESIGN 3.5). A second family runs "
                      "hundreds of thousands of tiny channels whose only sender sends one message and drops at once while the receiver polls "
                      "(try_recv, timed, blocking, receiver set): the message must precede the disconnection. In a quarter of those rounds the message carries a sender, which must arrive and work.",
        "level_note": "Liveness is restated as bounded progress: after every release returned and every helper was joined/reaped the observer must "
                      "return; 'stuck' is only declared for a thread asleep in one system call with no CPU use. Cyclic channel families are excluded by the property.",
        "technique": "runtime monitoring: executable reference model replayed along stamped histories + racing finale with logical hang detection",
        "rule": "case = model-generated program of 10..80 operations followed by a finale (observer kind x release-action multiset x dropper threads); "
                "distinct = hash of (operation list, observer kind, release actions, thread count); non-trivial = at least one release action raced the observer",
        "assumptions": ["release of in-flight descriptors when their carrier is closed is synchronous in this kernel (observed, see DESIGN 1.1)"],
    },
    "C19": {
        "plan": c19_plan,
        "post": c19_post,
        "level": "translation_validation",
        "level_text": "Differential execution: seeded single-threaded programs (<=60 operations, <=6 live channels, now and then a burst of 34..70 messages on a receiver-set member) are generated from an executable "
                      "ideal-FIFO model with handle counting; every step's result on the OS transport, the memfd build and the in-process transport "
                      "is compared with the model's prediction, and the normalised traces of the three builds are compared with each other.",
        "level_note": "Only programs whose every outcome the model defines are generated (no blocking call that would block, one connect per "
                      "server, select only with pending events, <=40 queued messages per channel); error payloads are normalised to kinds.",
        "technique": "runtime monitoring: model-based differential testing - generated programs executed on three transports against an executable reference model",
        "rule": "program = seeded sequence of <=60 operations (channel, clone, drop sender/receiver, send with embedded senders/receivers/regions, recv, "
                "try_recv, try_recv_timeout, receiver sets with drain-by-select, one-shot servers with connect/accept/drop, regions); distinct = hash of "
                "the generated operation list; non-trivial = at least one endpoint transfer or handle drop",
        "assumptions": ["release of in-flight descriptors when their carrier is closed is synchronous in this kernel (observed, see DESIGN 1.1)"],
        "extra_coverage": lambda agg: {"programs": agg["evaluations"], "disagreements_checked": agg["stats"].get("programs_compared_across_3_builds", 0)},
    },
    "C02": {
        "plan": c02_plan,
        "level": "exploration",
        "level_text": "Exploration: hundreds (quick) to thousands (thorough) of stamped concurrent histories with 1..8 sender handles "
                      "(clones, clones that travelled through a channel, exec'd processes that are handed a handle, fork()ed processes that inherit a copy of a handle which has already sent a multi-packet message) are checked offline for integrity, exactly-once "
                      "and the real-time order clause; schedules are reached by stress, CPU pinning, seeded delays and a deterministic "
                      "pause between the first and second packet of every multi-packet send. The exhaustive abstract packet-protocol model "
                      "the quantifier mentions belongs to another technique family and is not claimed.",
        "level_note": "Stamps are CLOCK_MONOTONIC taken at the client boundary; only stamp-ordered pairs are constrained, overlapping sends may be "
                      "delivered in either order. Trusts the kernel's per-socket FIFO behaviour.",
        "technique": "runtime monitoring: client-boundary history recording with unique message ids + offline O(n) real-time-order/exactly-once checker under delay and window-widening injection",
        "require": c02_require,
        "rule": "one history = 1..8 senders x 5..200 messages (0 B, small, F1-1/F1/F1+1, 2-6 packets) against a receiver that is eager, "
                "delayed, polling with try_recv or a receiver set; distinct = hash of the delivered sender sequence together with sender count and "
                "receiver mode; non-trivial = at least two concurrent sender handles",
        "assumptions": ["CLOCK_MONOTONIC is consistent across threads and processes of this machine",
                        "the exhaustive packet-level model of the quantifier is out of reach for runtime monitoring and not claimed"],
    },
    "C01": {
        "plan": c01_plan,
        "level": "exploration",
        "level_text": "Exploration: about 10^4 (quick) to 10^5 (thorough) real messages at and around every packet-capacity "
                      "boundary for five reported send-buffer sizes are sent through the real transports and compared bit for bit; "
                      "no enumeration of all values is possible, so the claim is 'held on every length class and receive path listed in the evidence'.",
        "level_note": "Trusts bincode/serde (not under test), the kernel's SEQPACKET semantics and the interposer's SO_SNDBUF substitution; "
                      "macOS and Windows transports are not executed.",
        "technique": "runtime monitoring: differential payload oracle over boundary-dense workloads with interposer-faked SO_SNDBUF and receive-buffer poisoning",
        "require": c01_require,
        "rule": "streams of messages on bytes and typed channels; lengths = every length 0..64, every length within "
                "+-16 of k*F1 (k=1..4) and F1+j*F2 (j=1..3) for each reported SO_SNDBUF in {real,4096,8192,16384,65536,4099,9001,20003}, "
                "powers of two +-1, log-uniform random lengths and one 64 MiB message; received through recv / try_recv / "
                "try_recv_timeout / receiver set, sender in a thread or an exec'd process; a case is one message, distinct by "
                "(channel kind, length class = boundary name and offset or log2 bucket, packets per message, reported "
                "SO_SNDBUF, build variant, receive mode, thread/process sender); all counted cases carry >=0 bytes and are "
                "compared bit for bit with a body regenerated from (stream, index)",
        "assumptions": [
            "receive buffers are poisoned by the interposer before each recvmsg/recv, so bytes the kernel did not write differ from the expected body",
            "the interposer-reported SO_SNDBUF is never larger than the real one, so packets only get smaller than what the kernel accepts",
            "only the Linux unix-socket and in-process transports are executed",
        ],
    },
}
