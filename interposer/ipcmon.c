/*
 * ipcmon — LD_PRELOAD libc-boundary monitor for the ipc-channel verification
 * harness (see /verif/DESIGN.md section 2.1).
 *
 * Roles (all off unless armed through the environment or the exported
 * ipcmon_* functions, which the harness resolves with dlsym(RTLD_DEFAULT)):
 *   trace        one text line per interposed call into IPCMON_TRACE.<pid>
 *   ledger       foreign-fd bitmap + shared-mapping table, online alarms for
 *                close of a foreign fd / close -> EBADF / munmap mismatch
 *   perturbation seeded delays and deterministic "window wideners"
 *   faults       ENOBUFS patterns, EINTR from epoll_wait, SIGKILL before the
 *                k-th call, reported SO_SNDBUF, forced failure of one call,
 *                poisoning of receive buffers before the kernel fills them
 *
 * The monitor never keeps pointers into the program's heap (only numbers), so
 * it does not hide leaks from LeakSanitizer / memcheck.
 */
#define _GNU_SOURCE
#include <dlfcn.h>
#include <errno.h>
#include <fcntl.h>
#include <poll.h>
#include <pthread.h>
#include <signal.h>
#include <stdarg.h>
#include <stdint.h>
#include <stdio.h>
#include <stdlib.h>
#include <string.h>
#include <sys/epoll.h>
#include <sys/mman.h>
#include <sys/socket.h>
#include <sys/syscall.h>
#include <sys/types.h>
#include <sys/uio.h>
#include <time.h>
#include <unistd.h>

#define EXPORT __attribute__((visibility("default")))

/* ---- call ids (also used by ipcmon_fail_next / kill masks) ---- */
enum {
    C_SOCKET = 1, C_SOCKETPAIR, C_BIND, C_LISTEN, C_CONNECT, C_ACCEPT,
    C_SENDMSG, C_SEND, C_RECVMSG, C_RECV, C_CLOSE, C_DUP, C_FCNTL,
    C_GETSOCKOPT, C_SETSOCKOPT, C_EPOLL_WAIT, C_POLL, C_MMAP, C_MUNMAP,
    C_SHM_OPEN, C_SHM_UNLINK, C_FTRUNCATE, C_MAX
};
static const char *call_names[C_MAX] = {
    "?", "socket", "socketpair", "bind", "listen", "connect", "accept",
    "sendmsg", "send", "recvmsg", "recv", "close", "dup", "fcntl",
    "getsockopt", "setsockopt", "epoll_wait", "poll", "mmap", "munmap",
    "shm_open", "shm_unlink", "ftruncate"
};

/* ---- widener flags ---- */
#define W_FIRSTFRAG 1 /* sleep after a sendmsg that carried SCM_RIGHTS and a large payload */
#define W_NONBLOCK 2  /* sleep between fcntl(F_SETFL,O_NONBLOCK) and the recvmsg that follows */
#define W_EPOLL 4     /* sleep after epoll_wait returned events */
#define W_CLOSE 8     /* sleep before close */
#define W_FOLLOWUP 16 /* sleep before every send() (follow-up fragment) */
#define W_RECVFRAG 32 /* sleep before every recv() (follow-up reassembly) */

/* ---- real functions ---- */
static int (*r_socket)(int, int, int);
static int (*r_socketpair)(int, int, int, int[2]);
static int (*r_bind)(int, const struct sockaddr *, socklen_t);
static int (*r_listen)(int, int);
static int (*r_connect)(int, const struct sockaddr *, socklen_t);
static int (*r_accept)(int, struct sockaddr *, socklen_t *);
static int (*r_accept4)(int, struct sockaddr *, socklen_t *, int);
static ssize_t (*r_sendmsg)(int, const struct msghdr *, int);
static ssize_t (*r_send)(int, const void *, size_t, int);
static ssize_t (*r_recvmsg)(int, struct msghdr *, int);
static ssize_t (*r_recv)(int, void *, size_t, int);
static int (*r_close)(int);
static int (*r_dup)(int);
static int (*r_fcntl)(int, int, ...);
static int (*r_getsockopt)(int, int, int, void *, socklen_t *);
static int (*r_setsockopt)(int, int, int, const void *, socklen_t);
static int (*r_epoll_wait)(int, struct epoll_event *, int, int);
static int (*r_poll)(struct pollfd *, nfds_t, int);
static void *(*r_mmap)(void *, size_t, int, int, int, off_t);
static int (*r_munmap)(void *, size_t);
static int (*r_shm_open)(const char *, int, mode_t);
static int (*r_shm_unlink)(const char *);
static int (*r_ftruncate)(int, off_t);

static int g_inited;
static volatile int g_resolving;
static void resolve(void)
{
    if (g_inited || g_resolving) return;
    g_resolving = 1;
#define R(n) r_##n = dlsym(RTLD_NEXT, #n)
    R(socket); R(socketpair); R(bind); R(listen); R(connect); R(accept); R(accept4);
    R(sendmsg); R(send); R(recvmsg); R(recv); R(close); R(dup); R(fcntl);
    R(getsockopt); R(setsockopt); R(epoll_wait); R(poll); R(mmap); R(munmap);
    R(shm_open); R(shm_unlink); R(ftruncate);
#undef R
    g_inited = 1;
}

/* ---- global configuration ---- */
static volatile int g_fake_sndbuf;
static volatile int g_trace_fd = -1;
static volatile int g_trace_errors_only;
static char g_trace_prefix[512];
static volatile int g_poison;
static volatile uint64_t g_delay_seed;
static volatile int g_delay_permille, g_delay_max_us;
static volatile int g_widen, g_widen_us = 20000, g_widen_min_len = 2048;
static volatile int g_eintr_epoll;
static volatile int g_shm_widen_us;
static volatile int g_alarm_count;
static char g_alarm_text[4096];
static pthread_mutex_t g_alarm_mu = PTHREAD_MUTEX_INITIALIZER;
static volatile int g_thread_counter;
static volatile uint64_t g_counts[C_MAX];
static volatile uint64_t g_stat_enobufs_injected, g_stat_delays, g_stat_widened,
    g_stat_eintr_injected, g_stat_poisoned, g_stat_ctrunc, g_stat_trunc, g_stat_epoll_full;

/* ---- per-thread state ---- */
static __thread int t_idx = -1;
static __thread int t_foreign;
static __thread uint64_t t_calls;
static __thread int t_kill_at = -1, t_kill_cnt;
static __thread uint64_t t_enobufs_bits;
static __thread int t_enobufs_n, t_tx_attempts, t_enobufs_armed;
static __thread int t_fail_call, t_fail_errno, t_fail_skip;
static __thread int t_last_was_nonblock;
static __thread int t_nodelay;

#define FD_MAX 65536
static unsigned char g_foreign[FD_MAX];
static pthread_mutex_t g_fd_mu = PTHREAD_MUTEX_INITIALIZER;

#define MAP_MAX 8192
static struct { uintptr_t addr; size_t len; } g_maps[MAP_MAX];
static pthread_mutex_t g_map_mu = PTHREAD_MUTEX_INITIALIZER;

static uint64_t now_ns(void)
{
    struct timespec ts;
    clock_gettime(CLOCK_MONOTONIC, &ts);
    return (uint64_t)ts.tv_sec * 1000000000ull + ts.tv_nsec;
}

static int tidx(void)
{
    if (t_idx < 0) t_idx = __sync_fetch_and_add(&g_thread_counter, 1);
    return t_idx;
}

static void open_trace(void)
{
    if (!g_trace_prefix[0]) return;
    char path[600];
    snprintf(path, sizeof path, "%s.%d.log", g_trace_prefix, (int)getpid());
    int fd = (int)syscall(SYS_openat, AT_FDCWD, path, O_WRONLY | O_CREAT | O_APPEND | O_CLOEXEC, 0644);
    if (fd < 0) return;
    int hi = (int)syscall(SYS_fcntl, fd, F_DUPFD_CLOEXEC, 1000);
    if (hi >= 0) { syscall(SYS_close, fd); fd = hi; }
    g_trace_fd = fd;
}

static void on_fork_child(void)
{
    if (g_trace_fd >= 0) { syscall(SYS_close, g_trace_fd); g_trace_fd = -1; }
    open_trace();
}

__attribute__((constructor)) static void ipcmon_init(void)
{
    resolve();
    const char *e;
    if ((e = getenv("IPCMON_SNDBUF"))) g_fake_sndbuf = atoi(e);
    if ((e = getenv("IPCMON_POISON"))) g_poison = atoi(e);
    if ((e = getenv("IPCMON_DELAY"))) { /* seed:permille:max_us */
        unsigned long long s = 0; int p = 0, m = 0;
        sscanf(e, "%llu:%d:%d", &s, &p, &m);
        g_delay_seed = s; g_delay_permille = p; g_delay_max_us = m;
    }
    if ((e = getenv("IPCMON_WIDEN"))) { /* flags:us[:minlen] */
        int f = 0, u = 20000, l = 2048;
        sscanf(e, "%d:%d:%d", &f, &u, &l);
        g_widen = f; g_widen_us = u; g_widen_min_len = l;
    }
    if ((e = getenv("IPCMON_TRACE_ERRORS"))) g_trace_errors_only = atoi(e);
    if ((e = getenv("IPCMON_TRACE"))) {
        strncpy(g_trace_prefix, e, sizeof g_trace_prefix - 1);
        open_trace();
    }
    pthread_atfork(NULL, NULL, on_fork_child);
}

static void tracef(const char *fmt, ...)
{
    if (g_trace_fd < 0) return;
    char buf[512];
    int n = snprintf(buf, sizeof buf, "%llu %d ", (unsigned long long)now_ns(), tidx());
    va_list ap;
    va_start(ap, fmt);
    n += vsnprintf(buf + n, sizeof buf - n - 1, fmt, ap);
    va_end(ap);
    if (n > (int)sizeof buf - 2) n = sizeof buf - 2;
    buf[n] = 0;
    if (g_trace_errors_only) {
        /* keep only calls that failed with something else than EAGAIN, alarms, kills and notes */
        const char *e = strstr(buf, " err=");
        int keep = strstr(buf, "ALARM") || strstr(buf, "KILL") || strstr(buf, "NOTE") || strstr(buf, "INJECT") || strstr(buf, "FORCED");
        if (e && strncmp(e, " err=0", 6) != 0 && strncmp(e, " err=11 ", 8) != 0 && strcmp(e, " err=11") != 0) keep = 1;
        if (!keep) return;
    }
    buf[n++] = '\n';
    syscall(SYS_write, g_trace_fd, buf, n);
}

static void alarm_(const char *fmt, ...)
{
    char buf[400];
    va_list ap;
    va_start(ap, fmt);
    vsnprintf(buf, sizeof buf, fmt, ap);
    va_end(ap);
    pthread_mutex_lock(&g_alarm_mu);
    size_t l = strlen(g_alarm_text);
    if (l + strlen(buf) + 2 < sizeof g_alarm_text) {
        strcat(g_alarm_text, buf);
        strcat(g_alarm_text, "\n");
    }
    g_alarm_count++;
    pthread_mutex_unlock(&g_alarm_mu);
    tracef("ALARM %s", buf);
}

static uint64_t mix(uint64_t x)
{
    x += 0x9e3779b97f4a7c15ull;
    x = (x ^ (x >> 30)) * 0xbf58476d1ce4e5b9ull;
    x = (x ^ (x >> 27)) * 0x94d049bb133111ebull;
    return x ^ (x >> 31);
}

static void usleep_raw(int us)
{
    struct timespec ts = { us / 1000000, (long)(us % 1000000) * 1000 };
    while (nanosleep(&ts, &ts) < 0 && errno == EINTR) {}
}

/* called at the start of every interposed call */
static void pre(int call)
{
    int saved = errno;
    __sync_fetch_and_add(&g_counts[call], 1);
    uint64_t k = t_calls++;
    if (t_kill_at >= 0 && (call == C_SOCKETPAIR || call == C_SENDMSG || call == C_SEND || call == C_CLOSE)) {
        if (t_kill_cnt == t_kill_at) {
            tracef("KILL before=%s k=%d", call_names[call], t_kill_at);
            kill(getpid(), SIGKILL);
            for (;;) pause();
        }
        t_kill_cnt++;
    }
    if (!t_foreign && !t_nodelay && g_delay_permille > 0 &&
        (call == C_SENDMSG || call == C_SEND || call == C_RECVMSG || call == C_RECV ||
         call == C_CLOSE || call == C_EPOLL_WAIT || call == C_FCNTL || call == C_SOCKETPAIR)) {
        uint64_t h = mix(g_delay_seed ^ mix(((uint64_t)tidx() << 40) ^ k));
        if ((int)(h % 1000) < g_delay_permille) {
            int us = g_delay_max_us > 0 ? (int)((h >> 20) % (uint64_t)g_delay_max_us) : 0;
            __sync_fetch_and_add(&g_stat_delays, 1);
            if (us > 0) usleep_raw(us); else sched_yield();
        }
    }
    errno = saved;
}

static int forced_failure(int call)
{
    if (t_fail_call == call) {
        if (t_fail_skip > 0) { t_fail_skip--; return 0; }
        t_fail_call = 0;
        errno = t_fail_errno;
        tracef("%s FORCED-FAIL errno=%d", call_names[call], t_fail_errno);
        return 1;
    }
    return 0;
}

static void mark_created(int fd)
{
    if (fd >= 0 && fd < FD_MAX && t_foreign) {
        pthread_mutex_lock(&g_fd_mu);
        g_foreign[fd] = 1;
        pthread_mutex_unlock(&g_fd_mu);
    }
}

static void hex(char *out, const unsigned char *p, size_t n)
{
    static const char d[] = "0123456789abcdef";
    for (size_t i = 0; i < n; i++) { out[2 * i] = d[p[i] >> 4]; out[2 * i + 1] = d[p[i] & 15]; }
    out[2 * n] = 0;
}

static size_t gather_prefix(const struct msghdr *m, size_t avail, unsigned char *dst, size_t cap)
{
    size_t got = 0;
    for (size_t i = 0; i < (size_t)m->msg_iovlen && got < cap && avail > 0; i++) {
        size_t l = m->msg_iov[i].iov_len;
        if (l > avail) l = avail;
        size_t c = l < cap - got ? l : cap - got;
        memcpy(dst + got, m->msg_iov[i].iov_base, c);
        got += c;
        avail -= l;
    }
    return got;
}

static int count_fds(const struct msghdr *m, char *list, size_t cap)
{
    int n = 0;
    if (list) list[0] = 0;
    if (!m->msg_control || m->msg_controllen < sizeof(struct cmsghdr)) return 0;
    for (struct cmsghdr *c = CMSG_FIRSTHDR((struct msghdr *)m); c; c = CMSG_NXTHDR((struct msghdr *)m, c)) {
        if (c->cmsg_level == SOL_SOCKET && c->cmsg_type == SCM_RIGHTS) {
            int k = (int)((c->cmsg_len - CMSG_LEN(0)) / sizeof(int));
            int *fds = (int *)CMSG_DATA(c);
            for (int i = 0; i < k; i++) {
                if (list) {
                    size_t l = strlen(list);
                    if (l + 12 < cap) snprintf(list + l, cap - l, "%s%d", l ? "," : "", fds[i]);
                }
            }
            n += k;
        }
    }
    return n;
}

/* ===================== interposed calls ===================== */

EXPORT int socket(int d, int t, int p)
{
    resolve(); pre(C_SOCKET);
    if (forced_failure(C_SOCKET)) return -1;
    int r = r_socket(d, t, p);
    int e = errno;
    mark_created(r);
    tracef("socket type=%x ret=%d err=%d", t, r, r < 0 ? e : 0);
    errno = e;
    return r;
}

EXPORT int socketpair(int d, int t, int p, int sv[2])
{
    resolve(); pre(C_SOCKETPAIR);
    if (forced_failure(C_SOCKETPAIR)) return -1;
    int r = r_socketpair(d, t, p, sv);
    int e = errno;
    if (r == 0) { mark_created(sv[0]); mark_created(sv[1]); }
    tracef("socketpair type=%x ret=%d a=%d b=%d err=%d", t, r, r == 0 ? sv[0] : -1, r == 0 ? sv[1] : -1, r < 0 ? e : 0);
    errno = e;
    return r;
}

EXPORT int bind(int fd, const struct sockaddr *a, socklen_t l)
{
    resolve(); pre(C_BIND);
    if (forced_failure(C_BIND)) return -1;
    int r = r_bind(fd, a, l);
    int e = errno;
    tracef("bind fd=%d ret=%d err=%d", fd, r, r < 0 ? e : 0);
    errno = e;
    return r;
}

EXPORT int listen(int fd, int n)
{
    resolve(); pre(C_LISTEN);
    if (forced_failure(C_LISTEN)) return -1;
    int r = r_listen(fd, n);
    int e = errno;
    tracef("listen fd=%d ret=%d err=%d", fd, r, r < 0 ? e : 0);
    errno = e;
    return r;
}

EXPORT int connect(int fd, const struct sockaddr *a, socklen_t l)
{
    resolve(); pre(C_CONNECT);
    if (forced_failure(C_CONNECT)) return -1;
    int r = r_connect(fd, a, l);
    int e = errno;
    tracef("connect fd=%d ret=%d err=%d", fd, r, r < 0 ? e : 0);
    errno = e;
    return r;
}

EXPORT int accept(int fd, struct sockaddr *a, socklen_t *l)
{
    resolve(); pre(C_ACCEPT);
    if (forced_failure(C_ACCEPT)) return -1;
    int r = r_accept(fd, a, l);
    int e = errno;
    mark_created(r);
    tracef("accept fd=%d ret=%d err=%d", fd, r, r < 0 ? e : 0);
    errno = e;
    return r;
}

EXPORT int accept4(int fd, struct sockaddr *a, socklen_t *l, int fl)
{
    resolve(); pre(C_ACCEPT);
    if (forced_failure(C_ACCEPT)) return -1;
    int r = r_accept4(fd, a, l, fl);
    int e = errno;
    mark_created(r);
    tracef("accept4 fd=%d flags=%x ret=%d err=%d", fd, fl, r, r < 0 ? e : 0);
    errno = e;
    return r;
}

static int tx_fault(const char *name, int fd, size_t len)
{
    if (t_enobufs_armed) {
        int k = t_tx_attempts++;
        if (k < t_enobufs_n && ((t_enobufs_bits >> k) & 1)) {
            __sync_fetch_and_add(&g_stat_enobufs_injected, 1);
            tracef("%s fd=%d len=%zu INJECT-ENOBUFS attempt=%d", name, fd, len, k);
            errno = ENOBUFS;
            return 1;
        }
    }
    return 0;
}

EXPORT ssize_t sendmsg(int fd, const struct msghdr *m, int flags)
{
    resolve(); pre(C_SENDMSG);
    size_t total = 0;
    for (size_t i = 0; i < (size_t)m->msg_iovlen; i++) total += m->msg_iov[i].iov_len;
    if (tx_fault("sendmsg", fd, total)) return -1;
    char fdl[256];
    int nfd = count_fds(m, g_trace_fd >= 0 ? fdl : NULL, sizeof fdl);
    ssize_t r = r_sendmsg(fd, m, flags);
    int e = errno;
    if (g_trace_fd >= 0) {
        unsigned char pre_[40]; char hx[81];
        size_t g = gather_prefix(m, total, pre_, sizeof pre_);
        hex(hx, pre_, g);
        tracef("sendmsg fd=%d len=%zu nfd=%d fds=[%s] ret=%zd err=%d tag=%s", fd, total, nfd, fdl, r, r < 0 ? e : 0, hx);
    }
    if (r > 0 && (g_widen & W_FIRSTFRAG) && nfd > 0 && total >= (size_t)g_widen_min_len && !t_foreign) {
        __sync_fetch_and_add(&g_stat_widened, 1);
        usleep_raw(g_widen_us);
    }
    errno = e;
    return r;
}

EXPORT ssize_t send(int fd, const void *b, size_t n, int flags)
{
    resolve(); pre(C_SEND);
    if (tx_fault("send", fd, n)) return -1;
    if ((g_widen & W_FOLLOWUP) && !t_foreign) {
        __sync_fetch_and_add(&g_stat_widened, 1);
        usleep_raw(g_widen_us);
    }
    ssize_t r = r_send(fd, b, n, flags);
    int e = errno;
    if (g_trace_fd >= 0) {
        char hx[81];
        hex(hx, b, n < 40 ? n : 40);
        tracef("send fd=%d len=%zu ret=%zd err=%d tag=%s", fd, n, r, r < 0 ? e : 0, hx);
    }
    errno = e;
    return r;
}

static unsigned char poison_byte(void)
{
    static volatile unsigned g;
    unsigned k = __sync_fetch_and_add(&g, 1);
    /* never 0: an all-zero tail would be indistinguishable from fresh pages */
    return (unsigned char)(0xA5 ^ ((k * 37u) & 0x5E)) | 0x80;
}

EXPORT ssize_t recvmsg(int fd, struct msghdr *m, int flags)
{
    resolve(); pre(C_RECVMSG);
    if (t_last_was_nonblock && (g_widen & W_NONBLOCK) && !t_foreign) {
        __sync_fetch_and_add(&g_stat_widened, 1);
        usleep_raw(g_widen_us);
    }
    t_last_was_nonblock = 0;
    unsigned char pb = 0;
    if (g_poison && !t_foreign) {
        pb = poison_byte();
        for (size_t i = 0; i < (size_t)m->msg_iovlen; i++)
            if (m->msg_iov[i].iov_len > 8) memset(m->msg_iov[i].iov_base, pb, m->msg_iov[i].iov_len);
        __sync_fetch_and_add(&g_stat_poisoned, 1);
    }
    ssize_t r = r_recvmsg(fd, m, flags);
    int e = errno;
    if (r >= 0) {
        if (m->msg_flags & MSG_CTRUNC) __sync_fetch_and_add(&g_stat_ctrunc, 1);
        if (m->msg_flags & MSG_TRUNC) __sync_fetch_and_add(&g_stat_trunc, 1);
    }
    if (g_trace_fd >= 0) {
        char fdl[256]; fdl[0] = 0;
        int nfd = r >= 0 ? count_fds(m, fdl, sizeof fdl) : 0;
        unsigned char pre_[40]; char hx[81]; hx[0] = 0;
        if (r > 0) { size_t g = gather_prefix(m, (size_t)r, pre_, sizeof pre_); hex(hx, pre_, g); }
        tracef("recvmsg fd=%d ret=%zd nfd=%d fds=[%s] mflags=%x err=%d poison=%02x tag=%s", fd, r, nfd, fdl,
               r >= 0 ? m->msg_flags : 0, r < 0 ? e : 0, pb, hx);
    }
    if (r >= 0 && m->msg_control && !t_foreign) {
        /* fds delivered to a foreign-context thread are foreign; library threads own theirs */
    }
    errno = e;
    return r;
}

EXPORT ssize_t recv(int fd, void *b, size_t n, int flags)
{
    resolve(); pre(C_RECV);
    if ((g_widen & W_RECVFRAG) && !t_foreign) {
        __sync_fetch_and_add(&g_stat_widened, 1);
        usleep_raw(g_widen_us);
    }
    unsigned char pb = 0;
    if (g_poison && !t_foreign && n > 0) {
        pb = poison_byte();
        memset(b, pb, n);
        __sync_fetch_and_add(&g_stat_poisoned, 1);
    }
    ssize_t r = r_recv(fd, b, n, flags);
    int e = errno;
    tracef("recv fd=%d cap=%zu ret=%zd err=%d poison=%02x", fd, n, r, r < 0 ? e : 0, pb);
    errno = e;
    return r;
}

EXPORT int close(int fd)
{
    resolve(); pre(C_CLOSE);
    if ((g_widen & W_CLOSE) && !t_foreign) usleep_raw(g_widen_us);
    int was_foreign = 0;
    if (fd >= 0 && fd < FD_MAX) {
        pthread_mutex_lock(&g_fd_mu);
        was_foreign = g_foreign[fd];
        if (t_foreign) g_foreign[fd] = 0;
        pthread_mutex_unlock(&g_fd_mu);
    }
    if (was_foreign && !t_foreign) {
        alarm_("close-foreign fd=%d thread=%d", fd, tidx());
        /* do not really close somebody else's descriptor: report EBADF-free success so the
         * program continues and the alarm is what the harness sees */
        return 0;
    }
    int r = r_close(fd);
    int e = errno;
    if (r < 0 && e == EBADF && !t_foreign) alarm_("close-ebadf fd=%d thread=%d", fd, tidx());
    tracef("close fd=%d ret=%d err=%d", fd, r, r < 0 ? e : 0);
    errno = e;
    return r;
}

EXPORT int dup(int fd)
{
    resolve(); pre(C_DUP);
    int r = r_dup(fd);
    int e = errno;
    mark_created(r);
    tracef("dup fd=%d ret=%d err=%d", fd, r, r < 0 ? e : 0);
    errno = e;
    return r;
}

static int do_fcntl(int fd, int cmd, long arg)
{
    resolve(); pre(C_FCNTL);
    int r = r_fcntl(fd, cmd, arg);
    int e = errno;
    if ((cmd == F_DUPFD || cmd == F_DUPFD_CLOEXEC) && r >= 0) mark_created(r);
    if (cmd == F_SETFL) t_last_was_nonblock = (arg & O_NONBLOCK) != 0;
    if (cmd == F_SETFL || cmd == F_DUPFD || cmd == F_DUPFD_CLOEXEC)
        tracef("fcntl fd=%d cmd=%d arg=%lx ret=%d err=%d", fd, cmd, arg, r, r < 0 ? e : 0);
    errno = e;
    return r;
}

EXPORT int fcntl(int fd, int cmd, ...)
{
    va_list ap; va_start(ap, cmd); long arg = va_arg(ap, long); va_end(ap);
    return do_fcntl(fd, cmd, arg);
}

EXPORT int fcntl64(int fd, int cmd, ...)
{
    va_list ap; va_start(ap, cmd); long arg = va_arg(ap, long); va_end(ap);
    return do_fcntl(fd, cmd, arg);
}

EXPORT int getsockopt(int fd, int level, int name, void *val, socklen_t *len)
{
    resolve(); pre(C_GETSOCKOPT);
    int r = r_getsockopt(fd, level, name, val, len);
    int e = errno;
    if (r == 0 && level == SOL_SOCKET && name == SO_SNDBUF && g_fake_sndbuf > 0 && val && len && *len >= sizeof(int)) {
        int real = *(int *)val;
        if (g_fake_sndbuf < real) *(int *)val = g_fake_sndbuf;
        tracef("getsockopt SO_SNDBUF fd=%d real=%d reported=%d", fd, real, *(int *)val);
    }
    errno = e;
    return r;
}

EXPORT int setsockopt(int fd, int level, int name, const void *val, socklen_t len)
{
    resolve(); pre(C_SETSOCKOPT);
    if (forced_failure(C_SETSOCKOPT)) return -1;
    int r = r_setsockopt(fd, level, name, val, len);
    int e = errno;
    tracef("setsockopt fd=%d level=%d name=%d ret=%d err=%d", fd, level, name, r, r < 0 ? e : 0);
    errno = e;
    return r;
}

EXPORT int epoll_wait(int ep, struct epoll_event *ev, int max, int timeout)
{
    resolve(); pre(C_EPOLL_WAIT);
    if (!t_foreign && g_eintr_epoll > 0) {
        int v = __sync_fetch_and_sub(&g_eintr_epoll, 1);
        if (v > 0) {
            __sync_fetch_and_add(&g_stat_eintr_injected, 1);
            tracef("epoll_wait ep=%d INJECT-EINTR", ep);
            errno = EINTR;
            return -1;
        }
        __sync_fetch_and_add(&g_eintr_epoll, 1);
    }
    int r = r_epoll_wait(ep, ev, max, timeout);
    int e = errno;
    if (r == max && max > 0) __sync_fetch_and_add(&g_stat_epoll_full, 1);
    tracef("epoll_wait ep=%d max=%d timeout=%d ret=%d err=%d", ep, max, timeout, r, r < 0 ? e : 0);
    if (r > 0 && (g_widen & W_EPOLL) && !t_foreign) {
        __sync_fetch_and_add(&g_stat_widened, 1);
        usleep_raw(g_widen_us);
    }
    errno = e;
    return r;
}

EXPORT int poll(struct pollfd *fds, nfds_t n, int timeout)
{
    resolve(); pre(C_POLL);
    uint64_t t0 = now_ns();
    int r = r_poll(fds, n, timeout);
    int e = errno;
    if (!t_foreign)
        tracef("poll n=%d timeout=%d ret=%d revents=%x err=%d dur_us=%llu", (int)n, timeout, r,
               n > 0 ? fds[0].revents : 0, r < 0 ? e : 0, (unsigned long long)((now_ns() - t0) / 1000));
    errno = e;
    return r;
}

EXPORT void *mmap(void *addr, size_t len, int prot, int flags, int fd, off_t off)
{
    /* raw syscall: mmap is reached from malloc/dlsym before anything is resolved */
    void *r = (void *)syscall(SYS_mmap, addr, len, prot, flags, fd, off);
    int e = errno;
    if (r != MAP_FAILED && (flags & MAP_SHARED) && fd >= 0 && g_inited && !t_foreign) {
        __sync_fetch_and_add(&g_counts[C_MMAP], 1);
        pthread_mutex_lock(&g_map_mu);
        int placed = 0;
        for (int i = 0; i < MAP_MAX; i++)
            if (g_maps[i].addr == 0) { g_maps[i].addr = (uintptr_t)r; g_maps[i].len = len; placed = 1; break; }
        pthread_mutex_unlock(&g_map_mu);
        (void)placed;
        tracef("mmap fd=%d len=%zu ret=%p", fd, len, r);
    }
    errno = e;
    return r;
}

EXPORT int munmap(void *addr, size_t len)
{
    int tracked = 0;
    size_t want = 0;
    if (!g_inited) return (int)syscall(SYS_munmap, addr, len);
    pthread_mutex_lock(&g_map_mu);
    for (int i = 0; i < MAP_MAX; i++)
        if (g_maps[i].addr == (uintptr_t)addr && addr) { tracked = 1; want = g_maps[i].len; g_maps[i].addr = 0; break; }
    pthread_mutex_unlock(&g_map_mu);
    if (tracked) {
        __sync_fetch_and_add(&g_counts[C_MUNMAP], 1);
        if (want != len) alarm_("munmap-length addr=%p len=%zu mapped=%zu", addr, len, want);
        tracef("munmap addr=%p len=%zu", addr, len);
    }
    return (int)syscall(SYS_munmap, addr, len);
}

EXPORT int shm_open(const char *name, int oflag, mode_t mode)
{
    resolve(); pre(C_SHM_OPEN);
    int r = r_shm_open(name, oflag, mode);
    int e = errno;
    mark_created(r);
    /* widener: keep a freshly created name linked a little longer (the library unlinks it at once) */
    if (r >= 0 && (oflag & O_CREAT) && g_shm_widen_us > 0 && !t_foreign) {
        __sync_fetch_and_add(&g_stat_widened, 1);
        usleep_raw(g_shm_widen_us);
    }
    tracef("shm_open name=%s ret=%d err=%d", name, r, r < 0 ? e : 0);
    errno = e;
    return r;
}

EXPORT int shm_unlink(const char *name)
{
    resolve(); pre(C_SHM_UNLINK);
    int r = r_shm_unlink(name);
    int e = errno;
    tracef("shm_unlink name=%s ret=%d err=%d", name, r, r < 0 ? e : 0);
    errno = e;
    return r;
}

EXPORT int ftruncate(int fd, off_t len)
{
    resolve(); pre(C_FTRUNCATE);
    int r = r_ftruncate(fd, len);
    int e = errno;
    tracef("ftruncate fd=%d len=%lld ret=%d err=%d", fd, (long long)len, r, r < 0 ? e : 0);
    errno = e;
    return r;
}

/* ===================== control API for the harness ===================== */

EXPORT int ipcmon_present(void) { return 1; }
EXPORT void ipcmon_set_foreign(int on) { t_foreign = on; }
EXPORT void ipcmon_set_nodelay(int on) { t_nodelay = on; }
EXPORT void ipcmon_mark_foreign_fd(int fd, int on)
{
    if (fd >= 0 && fd < FD_MAX) { pthread_mutex_lock(&g_fd_mu); g_foreign[fd] = on ? 1 : 0; pthread_mutex_unlock(&g_fd_mu); }
}
EXPORT void ipcmon_arm_enobufs(uint64_t bits, int nbits)
{
    t_enobufs_bits = bits; t_enobufs_n = nbits; t_tx_attempts = 0; t_enobufs_armed = 1;
}
EXPORT int ipcmon_disarm_enobufs(void)
{
    int a = t_tx_attempts; t_enobufs_armed = 0; t_enobufs_n = 0; t_tx_attempts = 0; return a;
}
EXPORT void ipcmon_arm_kill(int k) { t_kill_at = k; t_kill_cnt = 0; }
EXPORT int ipcmon_disarm_kill(void) { int c = t_kill_cnt; t_kill_at = -1; t_kill_cnt = 0; return c; }
/* count the kill-relevant calls of this thread without killing */
EXPORT void ipcmon_count_kill_calls(void) { t_kill_at = 1 << 30; t_kill_cnt = 0; }
EXPORT void ipcmon_fail_next(int call, int err, int skip) { t_fail_call = call; t_fail_errno = err; t_fail_skip = skip; }
EXPORT int ipcmon_fail_pending(void) { return t_fail_call; }
EXPORT void ipcmon_set_delay(uint64_t seed, int permille, int max_us)
{
    g_delay_seed = seed; g_delay_permille = permille; g_delay_max_us = max_us;
}
EXPORT void ipcmon_set_shm_widen(int us) { g_shm_widen_us = us; }

EXPORT void ipcmon_set_widen(int flags, int us, int minlen)
{
    g_widen = flags; g_widen_us = us; if (minlen > 0) g_widen_min_len = minlen;
}
EXPORT void ipcmon_set_poison(int on) { g_poison = on; }
EXPORT void ipcmon_eintr_epoll(int n) { g_eintr_epoll = n; }
EXPORT int ipcmon_alarm_count(void) { return g_alarm_count; }
EXPORT int ipcmon_alarm_text(char *buf, int cap)
{
    pthread_mutex_lock(&g_alarm_mu);
    int n = (int)strlen(g_alarm_text);
    if (n > cap - 1) n = cap - 1;
    memcpy(buf, g_alarm_text, n);
    buf[n] = 0;
    pthread_mutex_unlock(&g_alarm_mu);
    return n;
}
EXPORT void ipcmon_alarm_reset(void)
{
    pthread_mutex_lock(&g_alarm_mu);
    g_alarm_text[0] = 0; g_alarm_count = 0;
    pthread_mutex_unlock(&g_alarm_mu);
}
EXPORT uint64_t ipcmon_call_count(int call) { return call > 0 && call < C_MAX ? g_counts[call] : 0; }
/* which: 0 enobufs injected, 1 delays, 2 widened, 3 eintr injected, 4 poisoned buffers,
 * 5 MSG_CTRUNC seen, 6 MSG_TRUNC seen, 7 epoll_wait returned a full buffer */
EXPORT uint64_t ipcmon_stat(int which)
{
    switch (which) {
    case 0: return g_stat_enobufs_injected;
    case 1: return g_stat_delays;
    case 2: return g_stat_widened;
    case 3: return g_stat_eintr_injected;
    case 4: return g_stat_poisoned;
    case 5: return g_stat_ctrunc;
    case 6: return g_stat_trunc;
    case 7: return g_stat_epoll_full;
    }
    return 0;
}
EXPORT void ipcmon_note(const char *s) { tracef("NOTE %s", s); }
EXPORT int ipcmon_fake_sndbuf(void) { return g_fake_sndbuf; }
