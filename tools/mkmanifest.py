#!/usr/bin/env python3
"""Regenerate /verif/MANIFEST.json from checkers/props.py (claimed checks) and properties.jsonl."""
import json, os, subprocess, sys
ROOT = os.path.dirname(os.path.dirname(os.path.abspath(__file__)))
sys.path.insert(0, os.path.join(ROOT, "checkers"))
import props
ids = [json.loads(l)["id"] for l in open(os.path.join(ROOT, "properties.jsonl"))]
checks = []
for pid in ids:
    if pid not in props.PROPS:
        continue
    s = props.PROPS[pid]
    checks.append({
        "property_id": pid,
        "quick_cmd": "./check %s --tier quick" % pid,
        "thorough_cmd": "./check %s --tier thorough" % pid,
        "evidence_file": "/verif/evidence/%s.json" % pid,
        "replay_cmd_template": "./check %s --replay {path}" % pid,
        "engine": "ipcdrv+ipcmon",
        "level_claimed": {"category": s["level"], "text": s["level_text"], "design_ref": s.get("design_ref", "DESIGN.md section 4, " + pid)},
        "level_note": s["level_note"],
        "technique": s["technique"],
    })
na = [{"property_id": p, "reason": props.NOT_APPLICABLE.get(p, "check not built yet (construction in progress; see DESIGN.md section 4)")}
      for p in ids if p not in props.PROPS]
hooks = props.HOOKS
m = {
    "version": 1,
    "setup_cmd": "./check setup",
    "hooks": hooks,
    "engines": [
        {"name": "ipcdrv+ipcmon", "path": "/verif/check", "serves_properties": [c["property_id"] for c in checks],
         "kind_free_text": "runtime monitoring: Rust workload drivers with client-boundary history recorders and oracles (harness/), "
                           "an LD_PRELOAD libc-boundary interposer for tracing, perturbation and fault injection (interposer/ipcmon.c), "
                           "AddressSanitizer / debug ub_checks / valgrind / Miri builds of the same drivers, offline checkers (checkers/)"}],
    "checks": checks,
    "notes": props.NOTES,
    "not_applicable": na,
}
json.dump(m, open(os.path.join(ROOT, "MANIFEST.json"), "w"), indent=1)
print("MANIFEST.json: %d checks, %d not_applicable" % (len(checks), len(na)))
