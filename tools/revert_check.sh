#!/bin/bash
# Validate every fix in both directions: reverse-apply the fix commit on /repo's working tree,
# run the check that found the defect (must report a violation), restore the tree.
# usage: tools/revert_check.sh            (never leaves /repo modified)
cd /verif
pairs="6fa0e14:C03 60ba22e:C09 f3a4409:C11 8863c11:C11 29975a8:C16 4e0eee5:C12 086b396:C14 6ce3fb3:C15 30abfa7:C16 9d50a14:C17 6c3f8c2:C18"
for pr in $pairs; do
  c=${pr%%:*}; p=${pr##*:}
  if ! git -C /repo diff $c~1 $c | git -C /repo apply -R --check 2>/dev/null; then echo "$c $p: reverse patch does not apply cleanly (later fixes touch the same lines) - skipped"; continue; fi
  git -C /repo diff $c~1 $c | git -C /repo apply -R
  out=$(./check $p --seed 7 2>/dev/null | grep -E "VIOLATION|$p quick" | tail -1)
  nv=$(./check $p --seed 7 2>&1 | grep -c "^VIOLATION")
  git -C /repo checkout -- .
  echo "$c $p: violations_reported=$nv :: $out"
done
rm -f replays/*.json
git -C /repo status --short
