#!/bin/bash
# tools/load.sh <n> <seconds> : n busy loops for a while (false-alarm sweeps under a starved machine)
for i in $(seq 1 $1); do (timeout $2 sh -c 'while :; do :; done' >/dev/null 2>&1 &) ; done
