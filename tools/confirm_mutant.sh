#!/bin/bash
# Confirm a sub-agent's seeded change in its own scratch worktree:
#   suite passes with the change, demo fails with it, demo passes without it.
# usage: tools/confirm_mutant.sh /tmp/mut/c05 1    -> writes <worktree>/out/<N>/confirm.json
W=$1; N=$2; O=$W/out/$N
export CARGO_NET_OFFLINE=true CARGO_TARGET_DIR=$W/target
cd $W || exit 2
git checkout -q -- src; rm -rf tests/demo.rs
res() { echo "{\"applies\": $1, \"suite_passes_with_change\": $2, \"demo_fails_with_change\": $3, \"demo_passes_without_change\": $4, \"note\": \"$5\"}" > $O/confirm.json; cat $O/confirm.json; }
[ -f $O/patch.diff ] || { res false false false false "no patch.diff"; exit 1; }
git apply --check $O/patch.diff 2>/dev/null || { res false false false false "patch does not apply"; exit 1; }
git apply $O/patch.diff
suite=false
if timeout 900 cargo test --offline > $O/suite.log 2>&1; then suite=true; fi
mkdir -p tests
demo_with=unknown; demo_without=unknown
if [ -f $O/demo.rs ]; then
  cp $O/demo.rs tests/demo.rs
  if timeout 600 cargo test --offline --test demo > $O/demo_with.log 2>&1; then demo_with=false; else demo_with=true; fi
  git checkout -q -- src
  if timeout 600 cargo test --offline --test demo > $O/demo_without.log 2>&1; then demo_without=true; else demo_without=false; fi
  rm -f tests/demo.rs; rmdir tests 2>/dev/null
else
  git checkout -q -- src
fi
git checkout -q -- src
res true $suite $demo_with $demo_without "$(grep -h 'test result' $O/suite.log | tr '\n' ' ' | cut -c1-160)"
