#!/usr/bin/env python3
"""Render the table 'which checks catch which seeded change' from seeded/_trials/*.json."""
import json, os, glob
ROOT = os.path.dirname(os.path.dirname(os.path.abspath(__file__)))
rows = []
for d in sorted(glob.glob(os.path.join(ROOT, "seeded", "C*-*"))):
    sid = os.path.basename(d)
    meta = json.load(open(os.path.join(d, "meta.json")))
    tf = os.path.join(ROOT, "seeded", "_trials", sid + ".json")
    if not os.path.exists(tf):
        rows.append((sid, meta, None)); continue
    rows.append((sid, meta, json.load(open(tf))))
print("| change | what it does (needs to manifest) | quick checks that report a violation | own property's check |")
print("|---|---|---|---|")
for sid, meta, t in rows:
    own = sid.split("-")[0]
    summ = (meta.get("summary") or "").replace("|", "/").replace("\n", " ")
    need = (meta.get("needs_to_manifest") or "").replace("|", "/").replace("\n", " ")
    if len(summ) > 200: summ = summ[:197] + "..."
    if len(need) > 150: need = need[:147] + "..."
    if t is None:
        print("| %s | %s (%s) | not run | |" % (sid, summ, need)); continue
    hit = [k for k, v in sorted(t.items()) if v["rc"] == 1]
    other = [k for k, v in sorted(t.items()) if v["rc"] not in (0, 1)]
    ownres = "caught" if own in hit else ("undecided (rc %s)" % t[own]["rc"] if own in other else "**missed by quick**")
    print("| %s | %s (%s) | %s%s | %s |" % (sid, summ, need, ", ".join(hit) or "none", (" (undecided: %s)" % ", ".join(other)) if other else "", ownres))
