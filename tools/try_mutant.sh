#!/bin/bash
# Run the quick checks against a seeded change: apply it to /repo, run, undo.
# usage: tools/try_mutant.sh <patch.diff> <out.json> [check ids... default all]
P=$1; OUT=$2; shift 2
CH=${@:-C01 C02 C03 C04 C05 C06 C07 C08 C09 C10 C11 C12 C13 C14 C15 C16 C17 C18 C19 C20}
cd /verif
[ -z "$(git -C /repo status --short)" ] || { echo "/repo not clean"; exit 2; }
if ! git -C /repo apply $P 2>/dev/null; then
  if ! git -C /repo apply -3 $P 2>/dev/null; then echo "patch does not apply to the current tree (needs rebase)"; git -C /repo reset -q --hard HEAD; exit 2; fi
  git -C /repo reset -q 2>/dev/null
fi
echo "{" > $OUT
first=1
for c in $CH; do
  t0=$(date +%s)
  o=$(timeout 900 ./check $c --seed ${SEED:-1} 2>/dev/null)
  rc=$?
  nv=$(echo "$o" | grep -c '^VIOLATION')
  sigs=$(ls replays/$c-*.json 2>/dev/null | head -3 | xargs -r jq -r .signature 2>/dev/null | sort -u | tr '\n' ';')
  [ $first = 1 ] || echo "," >> $OUT; first=0
  echo " \"$c\": {\"rc\": $rc, \"violations\": $nv, \"signatures\": \"$sigs\", \"secs\": $(( $(date +%s) - t0 ))}" >> $OUT
  rm -f replays/$c-*.json
done
echo "}" >> $OUT
git -C /repo checkout -- .
git -C /repo status --short
