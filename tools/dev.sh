#!/bin/bash
# dev helper: tools/dev.sh <variant> <family> [ipcdrv args...]   (env IPCMON_* passes through)
set -e
V=$1; shift
case $V in
 os-debug) F="";; memfd-debug) F="--features memfd";; inproc-debug) F="--features inproc";; async-debug) F="--features async";; os-release) F="--release";;
esac
cd /verif/harness
CARGO_NET_OFFLINE=true cargo build --offline --target-dir /verif/.build/$V $F 2>&1 | grep -E "^(error|warning: unused)" -A12 | head -80
BIN=/verif/.build/$V/debug/ipcdrv; [ $V = os-release ] && BIN=/verif/.build/$V/release/ipcdrv
cd /tmp
LD_PRELOAD=/verif/.build/libipcmon.so $BIN "$@" > /tmp/dev.out; echo "rc=$?"
python3 - <<'PY'
import json
for l in open('/tmp/dev.out'):
    try: d=json.loads(l)
    except Exception: print(l[:300]); continue
    if d.get('t')=='summary':
        d['distinct']=len(d['distinct']); print(json.dumps(d)[:2500])
    elif d.get('t') in('viol','inconclusive'):
        print(json.dumps(d)[:1200])
PY
